------------------------------- MODULE Refine -------------------------------
(***************************************************************************)
(* C19 - refinement keeps the surface; simplification only removes          *)
(* redundancy.                                                              *)
(*                                                                          *)
(* Part A (subdivision patterns).  Subdivide() splits every triangle (or    *)
(* quad: two triangles whose shared edge carries no tangent) according to   *)
(* the numbers of pieces div[i] >= 1 its edges are cut into, using a purely *)
(* topological pattern cached per canonical division tuple                  *)
(* (src/subdivision.cpp Partition).  ValidPartition says, in exact          *)
(* combinatorial terms, what such a pattern has to be:                      *)
(*   - edge i (corner i -> corner i+1) carries div[i]-1 vertices, in order; *)
(*   - corners, edge vertices and interior vertices are distinct ids, every *)
(*     one is used by a triangle, and (geometry) every one is a different   *)
(*     point, placed where its role says (corner / j-th of edge i / inside);*)
(*   - every directed boundary edge of the subdivided boundary cycle occurs *)
(*     in exactly one triangle and never reversed; every other directed     *)
(*     edge occurs once and is matched once by its reverse;                 *)
(*   - V - E + F = 1 (a disk); F is the demanded count where one is         *)
(*     demanded (n*n for the uniform triple n,n,n - Refine(n));             *)
(*   - (geometry) every triangle is positively oriented.                    *)
(* Boundary cycle + matching + positive orientation is an exact tiling: the *)
(* signed triangles sum to a chain whose boundary winds once around every   *)
(* interior point, and no triangle counts negatively.                       *)
(* TLC enumerates EVERY ordered division triple up to MaxTri and quadruple  *)
(* up to MaxQuad (the cache key space and all the ways a caller's edges map *)
(* onto a key), checks the predicate on a reference tiling of each (centre  *)
(* fan, exact integer geometry) and that damaged tilings are rejected, and  *)
(* prints each tuple with the boundary layout the real pattern must have.   *)
(* Refine_Trace.tla evaluates the same predicate on the partitions the      *)
(* implementation returned (ndjson written by drive/refine.cpp).            *)
(*                                                                          *)
(* Part B/C (programs on lattice solids, Lattice.tla): solid ; Smooth? ;    *)
(* Refine* ; Simplify/SetTolerance*, with what the statement demands of     *)
(* each step computed here (cells, volume, exposed faces, n*n, t below the  *)
(* feature size) and printed with the case.                                 *)
(***************************************************************************)
EXTENDS Lattice, TLC, Json, IOUtils, SequencesExt

CONSTANTS Families,   \* which case families Init enumerates
          MaxTri,     \* division triples 1..MaxTri
          MaxQuad,    \* division quadruples 1..MaxQuad
          FwdAll,     \* TRUE: every combination of edge directions for Reindex
          Emit

Sum(s) == FoldLeft(LAMBDA a, b : a + b, 0, s)
Sgn(x) == IF x > 0 THEN 1 ELSE IF x < 0 THEN -1 ELSE 0

(* ======================= Part A: what a valid partition is ================ *)
(* A partition record p:                                                     *)
(*   nc      3 triangle / 4 quad                                             *)
(*   div     <<d1..dnc>>  pieces of edge i (corner i -> corner i+1)          *)
(*   corner  <<ids>>      vertex id of corner i                              *)
(*   edge    <<seqs>>     ids of the div[i]-1 inner vertices of edge i, in   *)
(*                        order from corner i                                *)
(*   io, ninter           interior vertices are io .. io+ninter-1            *)
(*   tris    <<<<a,b,c>>>> the triangles                                     *)
(*   want    demanded number of triangles, 0 = none                          *)
(*   geo     1: verts/loc/tok/sgn are given -                                *)
(*   verts   ids of all vertices, loc[k] where vertex verts[k] lies          *)
(*           (<<0,i,0>> corner i (0-based), <<1,i,j>> j-th of edge i,        *)
(*           <<2,0,0>> strictly inside, <<3,0,0>> elsewhere), tok[k] a token *)
(*           of its point, sgn[t] the orientation sign of triangle t         *)
Bnd(p) == FlattenSeq([i \in 1..p.nc |-> <<p.corner[i]>> \o p.edge[i]])
ShapeOK(p) ==
  /\ Len(p.div) = p.nc /\ Len(p.corner) = p.nc /\ Len(p.edge) = p.nc
  /\ \A i \in 1..p.nc : p.div[i] >= 1 /\ Len(p.edge[i]) = p.div[i] - 1
AllIds(p) == ToSet(Bnd(p)) \cup (p.io .. (p.io + p.ninter - 1))
NV(p) == Len(Bnd(p)) + p.ninter
NT(p) == Len(p.tris)
DirEdges(p) == { << p.tris[x[1]][x[2]], p.tris[x[1]][(x[2] % 3) + 1] >> : x \in (1..NT(p)) \X (1..3) }
BndEdges(p) == LET b == Bnd(p) IN { << b[k], b[(k % Len(b)) + 1] >> : k \in 1..Len(b) }
Rev(e) == << e[2], e[1] >>
LocOf(p, v) == IF \E k \in 1..Len(p.verts) : p.verts[k] = v
               THEN p.loc[CHOOSE k \in 1..Len(p.verts) : p.verts[k] = v] ELSE <<3, 0, 0>>

Clause(b, name) == IF b THEN {name} ELSE {}
GeoFailed(p) ==
  IF ~(Len(p.verts) = NV(p) /\ Len(p.loc) = NV(p) /\ Len(p.tok) = NV(p) /\ Len(p.sgn) = NT(p)) THEN {"geo-shape"}
  ELSE
     Clause(Cardinality(ToSet(p.tok)) # NV(p), "same-point")
     \cup Clause(~( /\ \A i \in 1..p.nc :
                         /\ LocOf(p, p.corner[i]) = <<0, i - 1, 0>>
                         /\ \A j \in 1..Len(p.edge[i]) : LocOf(p, p.edge[i][j]) = <<1, i - 1, j>>
                    /\ \A v \in p.io .. (p.io + p.ninter - 1) : LocOf(p, v) = <<2, 0, 0>> ), "placement")
     \cup Clause(\E t \in 1..NT(p) : p.sgn[t] # 1, "orientation")

FailedClauses(p) ==
  IF ~ShapeOK(p) THEN {"shape"}
  ELSE LET ids == AllIds(p)
           de  == DirEdges(p)
           be  == BndEdges(p)
           F   == NT(p)
           twoE == 3 * F + Cardinality(be)
       IN Clause(Cardinality(ids) # NV(p), "distinct-ids")
          \cup Clause(\E t \in 1..F : \E k \in 1..3 : p.tris[t][k] \notin ids, "range")
          \cup Clause(\E t \in 1..F : p.tris[t][1] = p.tris[t][2] \/ p.tris[t][2] = p.tris[t][3] \/ p.tris[t][3] = p.tris[t][1], "degenerate")
          \cup Clause(ids \ { p.tris[x[1]][x[2]] : x \in (1..F) \X (1..3) } # {}, "unused")
          \cup Clause(Cardinality(de) # 3 * F, "edge-twice")
          \cup Clause((\E e \in de \cap be : Rev(e) \in de) \/ (\E e \in be : e \notin de), "boundary")
          \cup Clause(\E e \in de \ be : Rev(e) \notin de, "unmatched")
          \cup Clause(twoE % 2 # 0 \/ NV(p) - (twoE \div 2) + F # 1, "euler")
          \cup Clause(p.want > 0 /\ F # p.want, "count")
          \cup (IF p.geo = 1 THEN GeoFailed(p) ELSE {})
ValidPartition(p) == FailedClauses(p) = {}

(* ---- the cache key of a division tuple (Partition::GetPartition) ---------- *)
Rot(d, r) == [i \in 1..Len(d) |-> d[((i - 1 + r) % Len(d)) + 1]]
Key3(d) == LET a == SetMax({d[1], d[2], d[3]})
               c == SetMin({d[1], d[2], d[3]})
           IN << a, d[1] + d[2] + d[3] - a - c, c >>                \* sorted, largest first
PairLE(x, y) == x[1] < y[1] \/ (x[1] = y[1] /\ x[2] <= y[2])
KeyRot4(d) == CHOOSE r \in 0..3 :                                   \* first rotation starting with the
                /\ \A s \in 0..3 : PairLE(<<Rot(d, r)[1], Rot(d, r)[2]>>, <<Rot(d, s)[1], Rot(d, s)[2]>>)    \* smallest (edge, next edge)
                /\ \A s \in 0..(r - 1) : ~PairLE(<<Rot(d, s)[1], Rot(d, s)[2]>>, <<Rot(d, r)[1], Rot(d, r)[2]>>)
KeyOf(d) == IF Len(d) = 3 THEN Key3(d) ELSE Rot(d, KeyRot4(d))
(* Refine(n) cuts every edge into n pieces and promises n*n triangles         *)
Want(d) == IF Len(d) = 3 /\ d[1] = d[2] /\ d[2] = d[3] THEN d[1] * d[1] ELSE 0

(* ---- vertex numbering of a pattern in its own frame ------------------------ *)
(* corners 0..nc-1, then the inner vertices of edge 1, edge 2, ..., then the   *)
(* interior (Partition::vertBary, InteriorOffset)                              *)
OwnLayout(d) ==
  LET nc == Len(d) IN
  [corner |-> [i \in 1..nc |-> i - 1],
   edge   |-> [i \in 1..nc |-> [j \in 1..(d[i] - 1) |-> nc + Sum([k \in 1..(i - 1) |-> d[k] - 1]) + j - 1]],
   io     |-> Sum(d)]

(* ---- Reindex requests: the numbering Subdivide() would use ------------------ *)
(* corner ids, first new vertex of each edge (blocks laid out in the order     *)
(* ord), direction flags (fwd: the block runs from corner i to corner i+1),    *)
(* first interior id; and the boundary they denote                             *)
ReReq(d, cornerIds, ord, fwd) ==
  LET nc == Len(d)
      pos(i) == CHOOSE k \in 1..nc : ord[k] = i
      off == [i \in 1..nc |-> 10 + Sum([k \in 1..(pos(i) - 1) |-> d[ord[k]] - 1])]
  IN [corner |-> cornerIds, off |-> off, fwd |-> [i \in 1..nc |-> IF fwd[i] THEN 1 ELSE 0],
      io |-> 10 + Sum(d) - nc + 3,
      edge |-> [i \in 1..nc |-> [j \in 1..(d[i] - 1) |-> IF fwd[i] THEN off[i] + j - 1 ELSE off[i] + (d[i] - 1) - j]]]
FwdChoices(nc) ==
  IF FwdAll THEN [1..nc -> BOOLEAN]
  ELSE { [i \in 1..nc |-> TRUE], [i \in 1..nc |-> FALSE], [i \in 1..nc |-> i % 2 = 1], [i \in 1..nc |-> i \in {2, 3}] }
ReReqs(d) ==
  LET nc == Len(d)
      cs == IF nc = 3 THEN <<2, 0, 1>> ELSE <<3, 1, 0, 2>>
      fs == SetToSeq(FwdChoices(nc))
  IN [k \in 1..Len(fs) |-> ReReq(d, cs, IF k % 2 = 1 THEN [i \in 1..nc |-> i] ELSE [i \in 1..nc |-> nc + 1 - i], fs[k])]

(* ---- a reference tiling with exact integer geometry: the centre fan --------- *)
(* every boundary edge joined to one interior vertex at the centroid; integer  *)
(* coordinates on a grid fine enough for every j/div[i] and the centre         *)
Scale(d) == IF Len(d) = 3 THEN 3 * d[1] * d[2] * d[3] ELSE 2 * d[1] * d[2] * d[3] * d[4]
CornerPt(d, i) == LET S == Scale(d) IN
  IF Len(d) = 3 THEN (CASE i = 1 -> <<0, 0>> [] i = 2 -> <<S, 0>> [] i = 3 -> <<0, S>>)
  ELSE (CASE i = 1 -> <<0, 0>> [] i = 2 -> <<S, 0>> [] i = 3 -> <<S, S>> [] i = 4 -> <<0, S>>)
EdgePt(d, i, j) == LET a == CornerPt(d, i)
                       b == CornerPt(d, (i % Len(d)) + 1)
                   IN << a[1] + ((b[1] - a[1]) * j) \div d[i], a[2] + ((b[2] - a[2]) * j) \div d[i] >>
CentrePt(d) == IF Len(d) = 3 THEN << Scale(d) \div 3, Scale(d) \div 3 >> ELSE << Scale(d) \div 2, Scale(d) \div 2 >>
Orient2(a, b, c) == (b[1] - a[1]) * (c[2] - a[2]) - (b[2] - a[2]) * (c[1] - a[1])
RefFan(d, centre) ==
  LET nc == Len(d)
      L == OwnLayout(d)
      b == FlattenSeq([i \in 1..nc |-> <<L.corner[i]>> \o L.edge[i]])
      bp == FlattenSeq([i \in 1..nc |-> <<CornerPt(d, i)>> \o [j \in 1..(d[i] - 1) |-> EdgePt(d, i, j)]])
      bl == FlattenSeq([i \in 1..nc |-> << <<0, i - 1, 0>> >> \o [j \in 1..(d[i] - 1) |-> <<1, i - 1, j>>]])
      n == Len(b)
      pts == bp \o <<centre>>
      S == Scale(d)
      inside == centre[1] > 0 /\ centre[2] > 0 /\ (IF nc = 3 THEN centre[1] + centre[2] < S ELSE centre[1] < S /\ centre[2] < S)
  IN [nc |-> nc, div |-> d, corner |-> L.corner, edge |-> L.edge, io |-> L.io, ninter |-> 1,
      tris |-> [k \in 1..n |-> << b[k], b[(k % n) + 1], L.io >>],
      want |-> 0, geo |-> 1,
      verts |-> b \o <<L.io>>,
      loc |-> bl \o << IF inside THEN <<2, 0, 0>> ELSE <<3, 0, 0>> >>,
      tok |-> [k \in 1..(n + 1) |-> pts[k][1] * (S + 1) + pts[k][2]],
      sgn |-> [k \in 1..n |-> Sgn(Orient2(pts[k], pts[(k % n) + 1], centre))]]
(* damaged tilings the predicate has to reject                                 *)
SwapTri(t) == << t[2], t[1], t[3] >>
FlipFirst(p) == [p EXCEPT !.tris = [k \in 1..NT(p) |-> IF k = 1 THEN SwapTri(p.tris[k]) ELSE p.tris[k]]]
DropLast(p) == [p EXCEPT !.tris = SubSeq(p.tris, 1, NT(p) - 1), !.sgn = SubSeq(p.sgn, 1, NT(p) - 1)]
DupFirst(p) == [p EXCEPT !.tris = p.tris \o <<p.tris[1]>>, !.sgn = p.sgn \o <<p.sgn[1]>>]
ExtraVert(p) == [p EXCEPT !.ninter = p.ninter + 1, !.verts = p.verts \o <<p.io + p.ninter>>,
                          !.loc = p.loc \o << <<2, 0, 0>> >>, !.tok = p.tok \o << -1 >>]
ReverseEdge(p, i) == [p EXCEPT !.edge[i] = Reverse(p.edge[i])]      \* the wrong direction of an edge block
WrongCount(p) == [p EXCEPT !.want = NT(p) + 1]

(* ======================= Part B/C: programs on lattice solids ============== *)
Box(a, b, c, x, y, z) == << <<a, b, c>>, <<x, y, z>> >>
BoxCat == << Box(0, 0, 0, 1, 1, 1),        \* 1 unit cell
             Box(-1, -1, -1, 1, 1, 1),     \* 2 the 2x2x2 cube
             Box(-2, -1, 0, 1, 1, 1),      \* 3 a 3x2x1 slab (edges of three lengths)
             Box(0, 0, 0, 2, 2, 1),        \* 4 overlaps 2,3,6; contains 1
             Box(0, -1, -1, 1, 0, 1),      \* 5 touches 4 and 1 in a face patch, inside 2
             Box(-1, 0, 0, 2, 1, 2),       \* 6 crosses 2, 3, 4
             Box(0, 0, 1, 2, 2, 2) >>      \* 7 sits on 4 (whole-face contact: union with coplanar seams, intersection a 2x2 flap)
Box6(b) == << b[1][1], b[1][2], b[1][3], b[2][1], b[2][2], b[2][3] >>
SolidDen(s) == IF Len(s.boxes) = 1 THEN BoxCells(BoxCat[s.boxes[1]])
               ELSE BoolSem(s.op, BoxCells(BoxCat[s.boxes[1]]), BoxCells(BoxCat[s.boxes[2]]))
Singles == { [boxes |-> <<i>>, op |-> "One"] : i \in 1..Len(BoxCat) }
Pairs == { [boxes |-> <<i, j>>, op |-> o] : i \in 1..Len(BoxCat), j \in 1..Len(BoxCat), o \in Ops }
(* Add and Intersect once per unordered pair, Subtract in both orders          *)
AllSolids == Singles \cup { s \in Pairs : s.boxes[1] # s.boxes[2] /\ (s.op = "Subtract" \/ s.boxes[1] < s.boxes[2]) }
(* the quick selection: every single box and the pairs through boxes 4 and 5  *)
(* (overlap, containment, face-patch contact, empty intersection)             *)
QuickSolids == { s \in AllSolids : Len(s.boxes) = 1 \/ (s.boxes[1] \in {4, 5} /\ s.boxes[2] \in {1, 2, 5, 6}) \/ s.boxes \in {<<2, 6>>, <<2, 4>>} }
SolidsOf(sel) == IF sel = "all" THEN AllSolids ELSE QuickSolids

(* decimal parameters: text for the driver; ub = num/den is an upper bound of  *)
(* the value, enough to decide "below the feature size" exactly               *)
Dec(txt, num, den) == [txt |-> txt, num |-> num, den |-> den]
(* tolerances, all to be judged against the lattice feature size 1            *)
Tols == << Dec("0", 0, 1), Dec("1e-13", 1, 1000000000), Dec("1e-9", 1, 1000000000), Dec("1e-6", 1, 1000000),
           Dec("0.01", 1, 100), Dec("0.2", 1, 5) >>
BelowFeature(t) == t.num < t.den                  \* t <= num/den < 1 = the lattice spacing
SimpSteps == [k \in 1..(2 * Len(Tols)) |->
                LET t == Tols[((k - 1) \div 2) + 1] IN
                [k |-> IF k % 2 = 1 THEN "simplify" ELSE "settol", t |-> t.txt, below |-> BelowFeature(t)]]
RefN(n) == [k |-> "n", n |-> n, x |-> "0"]
RefLen(x) == [k |-> "len", n |-> 0, x |-> x]
RefTol(x) == [k |-> "tol", n |-> 0, x |-> x]
NoRef == [k |-> "none", n |-> 0, x |-> "0"]
FlatRefs == { RefN(n) : n \in 1..4 } \cup { RefLen(x) : x \in {"0.3", "0.45", "0.7", "1.1"} } \cup { RefTol("0.01") }
TanRefs(sel) == IF sel = "all" THEN { RefN(2), RefN(3), RefLen("0.4"), RefLen("0.27"), RefTol("0.05"), RefTol("0.01") }
                ELSE { RefN(2), RefLen("0.4"), RefTol("0.05"), RefTol("0.01") }
NoSmooth == [k |-> "none", angle |-> "0", smooth |-> "0", edges |-> <<>>]
Smooths == { [k |-> "out", angle |-> "52.5", smooth |-> "0", edges |-> <<>>],
             [k |-> "out", angle |-> "100", smooth |-> "0", edges |-> <<>>],
             [k |-> "out", angle |-> "60", smooth |-> "0.5", edges |-> <<>>],
             [k |-> "normals", angle |-> "60", smooth |-> "0", edges |-> <<>>],
             [k |-> "sharp", angle |-> "0", smooth |-> "0",
              edges |-> << [h |-> 0, s |-> "0"], [h |-> 4, s |-> "0.5"], [h |-> 11, s |-> "0"] >>] }
(* Refine(n): exactly n*n times the triangles                                  *)
Factor(ref) == IF ref.k = "n" THEN ref.n * ref.n ELSE 0

ProgCases(fam) ==
  LET sel == IF fam \in {"FLATq", "SIMPq", "TANq"} THEN "quick" ELSE "all" IN
  IF fam \in {"FLATq", "FLAT"} THEN { [s |-> s, sm |-> NoSmooth, ref |-> r, again |-> IF r.k = "len" THEN 2 ELSE 0, simp |-> TRUE] :
                                       s \in SolidsOf(sel), r \in FlatRefs }
  ELSE IF fam \in {"SIMPq", "SIMP"} THEN { [s |-> s, sm |-> NoSmooth, ref |-> NoRef, again |-> 0, simp |-> TRUE] : s \in SolidsOf(sel) }
  ELSE IF fam \in {"TANq", "TAN"} THEN { [s |-> s, sm |-> m, ref |-> r, again |-> 2, simp |-> FALSE] :
                                          s \in SolidsOf(sel), m \in Smooths, r \in TanRefs(sel) }
  ELSE {}
ProgFacts(c) ==
  LET den == SolidDen(c.s) IN
  [kind |-> "prog",
   name |-> ToString(c.s.boxes) \o c.s.op \o "|" \o c.sm.k \o c.sm.angle \o "/" \o c.sm.smooth \o "|" \o c.ref.k \o ToString(c.ref.n) \o "/" \o c.ref.x,
   boxes |-> [i \in 1..Len(c.s.boxes) |-> Box6(BoxCat[c.s.boxes[i]])], op |-> c.s.op,
   cells |-> EncSet(den), vol |-> Cardinality(den), exposed |-> ExposedFaces(den),
   sm |-> c.sm, ref |-> c.ref, factor |-> Factor(c.ref), again |-> c.again,
   simp |-> IF c.simp THEN SimpSteps ELSE <<>>,
   den |-> den]

(* ======================= cases, emission =================================== *)
PartTuples(fam) ==
  IF fam = "TRI" THEN { <<a, b, c>> : a \in 1..MaxTri, b \in 1..MaxTri, c \in 1..MaxTri }
  ELSE IF fam = "QUAD" THEN { <<a, b, c, e>> : a \in 1..MaxQuad, b \in 1..MaxQuad, c \in 1..MaxQuad, e \in 1..MaxQuad }
  ELSE {}
PartFacts(d) ==
  LET key == KeyOf(d) IN
  [kind |-> "part", name |-> (IF Len(d) = 3 THEN "T" ELSE "Q") \o ToString(d), nc |-> Len(d), div |-> d, key |-> key,
   want |-> Want(d), cached |-> OwnLayout(key), re |-> ReReqs(d)]

(* what Refine_Trace reports for one record written by the driver            *)
TraceVerdict(r) == [id |-> r.id, failed |-> FailedClauses(r), holds |-> ValidPartition(r), ntri |-> Len(r.tris)]

VARIABLES cs, done
vars == << cs, done >>
(* Init enumerates the raw cases; the step computes the facts (TLC workers in  *)
(* parallel), so the invariants speak about done states                       *)
Init ==
  /\ done = FALSE
  /\ \E fam \in Families :
       \/ \E d \in PartTuples(fam) : cs = [kind |-> "part", in |-> d]
       \/ \E c \in ProgCases(fam) : cs = [kind |-> "prog", in |-> c]
Computed ==
  CASE cs.kind = "part"  -> [kind |-> "part", d |-> cs.in, f |-> PartFacts(cs.in)]
    [] cs.kind = "prog"  -> [kind |-> "prog", f |-> ProgFacts(cs.in)]
Emitted(x) == IF x.kind = "prog" THEN [k \in (DOMAIN x.f) \ {"den"} |-> x.f[k]] ELSE x.f
Next == /\ ~done /\ done' = TRUE /\ cs' = Computed
        /\ (Emit => PrintT(<<"BEH", ToJson(Emitted(cs'))>>))

(* ======================= invariants checked by TLC ======================== *)
IsPart == cs.kind = "part" /\ done
(* the predicate accepts a correct tiling of every enumerated tuple, in the   *)
(* caller's frame and in the frame of its cache key                          *)
RefValid == IsPart =>
  /\ ValidPartition(RefFan(cs.d, CentrePt(cs.d)))
  /\ ValidPartition(RefFan(cs.f.key, CentrePt(cs.f.key)))
(* ... and is not vacuous: every kind of damage is rejected by the clause     *)
(* that is about it                                                          *)
RejectsDamaged == IsPart =>
  LET p == RefFan(cs.d, CentrePt(cs.d))
      S == Scale(cs.d)
  IN /\ "orientation" \in FailedClauses([FlipFirst(p) EXCEPT !.sgn = [k \in 1..NT(p) |-> IF k = 1 THEN -1 ELSE p.sgn[k]]])
     /\ FailedClauses(FlipFirst(p)) \cap {"boundary", "unmatched", "edge-twice"} # {}       \* even without geometry
     /\ FailedClauses(DropLast(p)) \cap {"boundary", "unmatched"} # {}
     /\ "euler" \in FailedClauses(DropLast(p))
     /\ "edge-twice" \in FailedClauses(DupFirst(p))
     /\ "unused" \in FailedClauses(ExtraVert(p))
     /\ "count" \in FailedClauses(WrongCount(p))
     /\ \A i \in 1..Len(cs.d) : cs.d[i] >= 3 => "boundary" \in FailedClauses([ReverseEdge(p, i) EXCEPT !.geo = 0])
     /\ "orientation" \in FailedClauses(RefFan(cs.d, << -1, -1 >>))            \* centre pulled outside: a fold
     /\ "placement" \in FailedClauses(RefFan(cs.d, << -1, -1 >>))
     /\ (cs.d[1] >= 2 => "same-point" \in FailedClauses(RefFan(cs.d, EdgePt(cs.d, 1, 1))))   \* centre on a boundary vertex
(* a disk with B boundary and I interior vertices has B + 2I - 2 triangles;   *)
(* the count demanded of the uniform triple is one a disk can have            *)
CountLaw == IsPart =>
  LET p == RefFan(cs.d, CentrePt(cs.d)) IN
  /\ NT(p) = Sum(cs.d) + 2 * p.ninter - 2
  /\ (cs.f.want > 0 => /\ (cs.f.want - Sum(cs.d) + 2) % 2 = 0
                       /\ cs.f.want - Sum(cs.d) + 2 >= 0)
(* the key is the tuple seen from another corner / in another order           *)
KeyLaw == IsPart =>
  LET d == cs.d
      k == cs.f.key
  IN IF Len(d) = 3
     THEN /\ k[1] >= k[2] /\ k[2] >= k[3]
          /\ \E pm \in Permutations(1..3) : \A i \in 1..3 : k[i] = d[pm[i]]
     ELSE /\ \E r \in 0..3 : k = Rot(d, r)
          /\ k[1] = SetMin({d[1], d[2], d[3], d[4]})
          /\ KeyOf(k) = k                                   \* a key is its own key
(* the Reindex requests are well-formed: all ids distinct, boundary as asked  *)
ReqLaw == IsPart =>
  \A k \in 1..Len(cs.f.re) :
    LET rq == cs.f.re[k]
        q == [nc |-> Len(cs.d), div |-> cs.d, corner |-> rq.corner, edge |-> rq.edge, io |-> rq.io, ninter |-> 1,
              tris |-> LET b == FlattenSeq([i \in 1..Len(cs.d) |-> <<rq.corner[i]>> \o rq.edge[i]]) IN
                       [j \in 1..Len(b) |-> << b[j], b[(j % Len(b)) + 1], rq.io >>],
              want |-> 0, geo |-> 0]
    IN /\ ValidPartition(q)
       /\ \A i \in 1..Len(cs.d) : \A j \in 1..Len(rq.edge[i]) : rq.edge[i][j] >= 10 /\ rq.edge[i][j] < rq.io

IsProg == cs.kind = "prog" /\ done
ProgLaw == IsProg =>
  /\ InWindow(cs.f.den)
  /\ cs.f.vol = Cardinality(cs.f.den)
  /\ (cs.f.vol = 0) = (cs.f.exposed = 0)
  /\ cs.f.exposed % 2 = 0                                   \* a closed lattice surface
  /\ (cs.f.ref.k = "n" => cs.f.factor = cs.f.ref.n * cs.f.ref.n)
  /\ (cs.f.ref.k # "n" => cs.f.factor = 0)
  /\ \A i \in 1..Len(cs.f.simp) : cs.f.simp[i].below               \* every tolerance used is below the feature size
(* the two formulations of the predicate agree on every implementation record *)
TraceConsistent == (cs.kind = "trace" /\ done) => (cs.f.holds = (cs.f.failed = {}))
=============================================================================
