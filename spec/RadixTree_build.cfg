CONSTANTS
 NS = {2,3,4,5}
 CodeMax = 7
 KInits = {128}
 Variants = {0}
 Level = 1
 Emit = FALSE
INIT InitBuild
NEXT NextBuild
INVARIANT BuildSafe
INVARIANT BuildFinal
CHECK_DEADLOCK FALSE
