CONSTANTS K = 4
  Family = "affine"
  Emit = TRUE
  Big = TRUE
INIT Init
NEXT Next
INVARIANT DenSane
INVARIANT ExactSolids
INVARIANT Refines
INVARIANT GroupSound
INVARIANT QualityDoc
INVARIANT LevelSetSane
CHECK_DEADLOCK FALSE
