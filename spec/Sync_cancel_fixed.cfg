CONSTANTS Threads <- T2
  Variant = "fixed"
  Programs <- P_cancel
INIT Init
NEXT Next
INVARIANT NoDataRace
