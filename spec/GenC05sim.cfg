\* C05: seeded random histories over a pool of live objects, every public operation kind
CONSTANTS K = 2
  LeafBoxes <- Cat8
  GenNames <- GensAll
  OpNames <- AllOps
  MaxLeaf = 3
  MaxNode = 16
  NH = 8
  Depth = 12
  Acts <- ActsC05
  LeafProps <- BothProps
  Emit = TRUE
INIT Init
NEXT Next
CHECK_DEADLOCK FALSE
