------------------------------- MODULE MCSync -------------------------------
EXTENDS Sync
T2 == {1, 2}
T3 == {1, 2, 3}
(* two threads observe H1 and H2 (sharing lazy S) through contexts, a third copies/assigns/reserves *)
P_ctx == [t \in T3 |-> CASE t = 1 -> << <<"statusctx", "H1">>, <<"copy", "H1">> >>
                          [] t = 2 -> << <<"statusctx", "H2">>, <<"query", "H1">> >>
                          [] t = 3 -> << <<"copy", "H2">>, <<"reserve", "H1">>, <<"assign", "H1", "H2">> >>]
(* cancellation poisoning while another thread evaluates through the shared node *)
P_cancel == [t \in T2 |-> IF t = 1 THEN << <<"cancelled", "H1">> >> ELSE << <<"query", "H2">>, <<"cancel", "H2">> >>]
(* plain queries, copies, assignments in both directions, lazy leaf *)
P_plain == [t \in T3 |-> CASE t = 1 -> << <<"query", "H1">>, <<"assign", "H1", "H2">>, <<"query", "HL">> >>
                            [] t = 2 -> << <<"query", "H2">>, <<"assign", "H2", "H1">>, <<"transform", "HL">> >>
                            [] t = 3 -> << <<"copy", "H1">>, <<"query", "HL">>, <<"transform", "H2">> >>]
=============================================================================
