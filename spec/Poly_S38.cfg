CONSTANTS Family = "S"
  G = 3
  MaxV = 8
  Emit = TRUE
  StartRows = {0,1,2}
INIT Init
NEXT Next
INVARIANT GenValid
INVARIANT PathSimple
INVARIANT RefValid
INVARIANT PickOK
INVARIANT MutantsRejected
INVARIANT PlaceNumbers
INVARIANT PlaceValid
CHECK_DEADLOCK FALSE
