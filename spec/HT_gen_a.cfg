CONSTANTS Size = 8
  StepC = 1
  Work <- W_a
  Claim = "cas"
  Emit = TRUE
  MaxSwitch = 3
INIT Init
NEXT Next
INVARIANT Retrievable
INVARIANT UsedCountsClaims
INVARIANT NoDuplicateKeys
CONSTRAINT SwitchBound
CHECK_DEADLOCK FALSE
