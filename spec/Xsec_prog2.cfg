\* C11: EVERY program "two leaves, then one Boolean or one transform" over the small leaf family
\* (11 varied contours x both fill rules), all operations, all 18 generators and derivations, observed at once or late
CONSTANTS K = 4
  Grid = 3
  LeafFam = "small"
  GenNames <- AllGens2
  OpNames <- Ops2
  MaxLeaf = 2
  Depth = 3
  Acts = {"Leaf", "Bool", "Xf"}
  ObsModes = {0, 1}
  Sample = FALSE
  Emit = TRUE
INIT Init
NEXT Next
INVARIANT EverythingInWindow
INVARIANT SetLaws
CHECK_DEADLOCK FALSE
