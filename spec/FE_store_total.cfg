CONSTANTS Items <- ItemsTies
  NChunks = 3
  Workers <- W3
  Idiom = "store"
  TotalKey = TRUE
  Accum = "int"
INIT Init
NEXT Next
INVARIANT Deterministic
