CONSTANTS N = 5
  Kind = "copyif"
  JoinOrder = "code"
  Emit = TRUE
INIT Init
NEXT Next
INVARIANT EqualsSequential
CHECK_DEADLOCK FALSE
