\* C11: EVERY program of two leaves of the tiny family followed by two steps (Boolean / transform of any
\* earlier step, transforms observed at once or only at the end)
CONSTANTS K = 4
  Grid = 3
  LeafFam = "tiny"
  GenNames <- GensSome
  OpNames <- Ops2
  MaxLeaf = 2
  Depth = 4
  Acts = {"Leaf", "Bool", "Xf"}
  ObsModes = {0, 1}
  Sample = FALSE
  Emit = TRUE
INIT Init
NEXT Next
INVARIANT EverythingInWindow
INVARIANT SetLaws
CHECK_DEADLOCK FALSE
