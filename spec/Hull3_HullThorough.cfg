CONSTANTS K = 1
  Families = {"M222", "M222x", "S223", "S223x", "S333b", "S333c", "NAMED", "C222"}
  Emit = TRUE
INIT Init
NEXT Next
INVARIANT RefIsHull
INVARIANT SpansIffVolume
INVARIANT ExtremeAgree
INVARIANT SplitSound
INVARIANT RejectsDamaged
INVARIANT MinkAlgebra
INVARIANT TraceConsistent
CHECK_DEADLOCK FALSE
