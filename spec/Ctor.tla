-------------------------------- MODULE Ctor --------------------------------
(***************************************************************************)
(* C17 - constructors and transforms produce the solid their parameters    *)
(* define.  Denotational module on the integer lattice of Lattice.tla.     *)
(*                                                                         *)
(* Every case is an argument tuple of a public constructor / transform.    *)
(* Its meaning is a THREE-VALUED classification of the cell centres of the *)
(* window: `in` (the property demands the centre INSIDE the result), `out` *)
(* (demands OUTSIDE) and `band` (nothing demanded: the centre lies on the  *)
(* analytic surface or inside the faceting band of a curved solid).  All   *)
(* arithmetic is exact: a cell centre c + 1/2 is handled in DOUBLED        *)
(* coordinates P = 2c+1 (odd integers), radii/heights are integers, the    *)
(* faceting of circles is bounded by rational lower bounds of cos^2.       *)
(* The expected Status comes from decision tables transcribed from the doc *)
(* comments of src/constructors.cpp (where code and comment agree).        *)
(* The driver (drive/ctor.cpp) calls the public API and classifies the     *)
(* centres with the independent winding oracle.                            *)
(***************************************************************************)
EXTENDS Lattice, TLC, Json

CONSTANTS Family,   \* which family of cases Init enumerates
          Emit,     \* print the cases for the driver
          Big       \* TRUE: thorough domains

Abs(x) == IF x < 0 THEN -x ELSE x
Max2(a, b) == IF a > b THEN a ELSE b
Min2(a, b) == IF a < b THEN a ELSE b
Sq(x) == x * x
SeqRange(s) == { s[i] : i \in 1..Len(s) }
DC(c) == << 2*c[1]+1, 2*c[2]+1, 2*c[3]+1 >>          \* doubled centre of cell c

(* each predicate is evaluated once per cell (R is a cached LET value)       *)
Classify(In(_), Out(_)) ==
  LET R == { << c, IF In(DC(c)) THEN 1 ELSE IF Out(DC(c)) THEN 0 ELSE 2 >> : c \in Cells }
  IN [in   |-> { r[1] : r \in { x \in R : x[2] = 1 } },
      band |-> { r[1] : r \in { x \in R : x[2] = 2 } }]
Nothing == [in |-> {}, band |-> {}]                    \* the empty solid: every centre outside
OK  == "NoError"
BAD == "InvalidConstruction"

(* ======================================================================= *)
(* Quality (manifold.cpp:44-118, common.h:665-680)                         *)
(* ======================================================================= *)
QInit == [seg |-> 0, ang |-> 10, len |-> 1]
(* setters ignore illegal values (SetMinCircularAngle: angle <= 0;         *)
(* SetMinCircularEdgeLength: length <= 0; SetCircularSegments: n < 3 and   *)
(* n # 0)                                                                  *)
QApply(q, op) ==
  CASE op[1] = "A" -> IF op[2] <= 0 THEN q ELSE [q EXCEPT !.ang = op[2]]
    [] op[1] = "L" -> IF op[2] <= 0 THEN q ELSE [q EXCEPT !.len = op[2]]
    [] op[1] = "S" -> IF op[2] < 3 /\ op[2] # 0 THEN q ELSE [q EXCEPT !.seg = op[2]]
    [] op[1] = "R" -> QInit
RECURSIVE QFold(_, _)
QFold(q, ops) == IF ops = <<>> THEN q ELSE QFold(QApply(q, Head(ops)), Tail(ops))
(* floor(2*pi*r/len) between integer bounds of pi:                         *)
(*    103993/33102 < pi < 355/113                                          *)
SegLLo(r, len) == (2 * Abs(r) * 103993) \div (33102 * len)
SegLHi(r, len) == (2 * Abs(r) * 355) \div (113 * len)
RoundUp4(n) == LET n1 == n + 3 IN n1 - (n1 % 4)        \* the code's arithmetic
(* -1: the bounds of pi do not decide the value (driver skips, counted)    *)
GetSeg(q, r) ==
  IF q.seg > 0 THEN q.seg
  ELSE LET a == 360 \div q.ang
           lo == SegLLo(r, q.len)
           hi == SegLHi(r, q.len)
       IN IF a <= lo THEN Max2(RoundUp4(a), 4)
          ELSE IF lo = hi THEN Max2(RoundUp4(Min2(a, lo)), 4)
          ELSE IF RoundUp4(Min2(a, lo)) = RoundUp4(Min2(a, hi)) THEN Max2(RoundUp4(Min2(a, lo)), 4)
          ELSE -1
(* the documented meaning, written independently: "the minimum of the      *)
(* segments calculated based on edge length and angle, rounded up to the   *)
(* nearest multiple of four" (never fewer than 4)                          *)
DocSeg(q, r) ==
  IF q.seg > 0 THEN q.seg
  ELSE LET a == 360 \div q.ang
           lo == SegLLo(r, q.len)
           n0 == Min2(a, lo)
       IN CHOOSE k \in {4 * j : j \in 1..100} : k >= n0 /\ (k - 4 < n0 \/ k = 4)

(* ======================================================================= *)
(* faceting bounds                                                         *)
(* ======================================================================= *)
(* An arc of 90*a degrees cut into nd chords: half step = 45a/nd degrees.  *)
(* Rational LOWER bound of cos^2(half step): exact for 60/45/30 degrees,   *)
(* otherwise cos^2 x >= 1 - x^2 >= 1 - 5a^2/(8 nd^2) (pi^2 < 10).          *)
CosSq(a, nd) ==
  IF 3 * a = 4 * nd THEN [n |-> 1, d |-> 4]             \* 60 degrees
  ELSE IF a = nd THEN [n |-> 1, d |-> 2]                \* 45
  ELSE IF 3 * a = 2 * nd THEN [n |-> 3, d |-> 4]        \* 30
  ELSE IF 8 * nd * nd - 5 * a * a <= 0 \/ 2 * nd <= a THEN [n |-> 0, d |-> 1]
  ELSE [n |-> 8 * nd * nd - 5 * a * a, d |-> 8 * nd * nd]
(* one chord per quadrant: the section is the diamond |x|+|y| <= R, exact  *)
Diamond(a, nd) == a = nd
(* gauge g(P) of the polygonal circle (the factor by which the unit n-gon  *)
(* must be scaled to pass through P):  r <= g <= r / cos(half step).       *)
(* RadLt: g(P) < bn/bd for sure;  RadGt: g(P) > bn/bd for sure (bn,bd >= 0)*)
RadLt(P, bn, bd, a, nd) ==
  IF Diamond(a, nd) THEN (Abs(P[1]) + Abs(P[2])) * bd < 2 * bn
  ELSE LET c == CosSq(a, nd) IN (Sq(P[1]) + Sq(P[2])) * c.d * Sq(bd) < 4 * c.n * Sq(bn)
RadGt(P, bn, bd, a, nd) ==
  IF Diamond(a, nd) THEN (Abs(P[1]) + Abs(P[2])) * bd > 2 * bn
  ELSE (Sq(P[1]) + Sq(P[2])) * Sq(bd) > 4 * Sq(bn)

(* ======================================================================= *)
(* Cube(size, center)  (constructors.cpp:96-112)                           *)
(* "If any dimensions in size are negative, or if all are zero, an empty   *)
(* Manifold will be returned."                                             *)
(* ======================================================================= *)
CubeStatus(s) == IF s[1] < 0 \/ s[2] < 0 \/ s[3] < 0 \/ (s[1] = 0 /\ s[2] = 0 /\ s[3] = 0) THEN BAD ELSE OK
CubeDen(s, cen) ==
  IF CubeStatus(s) = BAD THEN Nothing
  ELSE LET lo(i) == IF cen THEN -s[i] ELSE 0
           hi(i) == IF cen THEN s[i] ELSE 2 * s[i]
       IN Classify(LAMBDA P : \A i \in 1..3 : lo(i) < P[i] /\ P[i] < hi(i),
                   LAMBDA P : \E i \in 1..3 : P[i] < lo(i) \/ P[i] > hi(i))
CubeCases(d) ==
  LET D == IF Big THEN -1..4 ELSE -1..3
  IN { [kind |-> "cube", s |-> <<x, y, z>>, cen |-> cen] : x \in D, y \in D, z \in D, cen \in BOOLEAN }

(* ======================================================================= *)
(* Cylinder(height, radiusLow, radiusHigh, circularSegments, center)       *)
(* ======================================================================= *)
CylStatus(h, rl, rh) == IF h <= 0 \/ rl < 0 THEN BAD ELSE IF rl = 0 /\ rh <= 0 THEN BAD ELSE OK
CylRh(rl, rh) == IF rh < 0 THEN rl ELSE rh                 \* "Default is equal to radiusLow"
CylN(rl, rh, n) == IF n > 2 THEN n ELSE GetSeg(QInit, Max2(rl, CylRh(rl, rh)))
CylDen(h, rl, rh, n, cen) ==
  IF CylStatus(h, rl, rh) = BAD THEN Nothing
  ELSE LET rhe == CylRh(rl, rh)
           nn == CylN(rl, rh, n)
           Zr(P) == IF cen THEN P[3] + h ELSE P[3]        \* doubled height above the base
           zin(P) == 0 < Zr(P) /\ Zr(P) < 2 * h
           zout(P) == Zr(P) < 0 \/ Zr(P) > 2 * h
           Pn(P) == rl * (2 * h - Zr(P)) + rhe * Zr(P)    \* radius at that height = Pn/(2h)
       IN Classify(LAMBDA P : zin(P) /\ RadLt(P, Pn(P), 2 * h, 4, nn),
                   LAMBDA P : zout(P) \/ (zin(P) /\ RadGt(P, Pn(P), 2 * h, 4, nn))
                                      \/ RadGt(P, Max2(rl, rhe), 1, 4, nn))
CylCases(d) ==
  LET H == IF Big THEN -1..4 ELSE {-1, 0, 1, 3}
      RL == IF Big THEN -1..4 ELSE {-1, 0, 2, 3}
      RH == IF Big THEN -1..4 ELSE {-1, 0, 1, 3}
      N == IF Big THEN {0, 3, 4, 5, 6, 8, 12} ELSE {0, 3, 4, 8}
  IN { [kind |-> "cyl", h |-> h, rl |-> rl, rh |-> rh, n |-> n, cen |-> cen] :
         h \in H, rl \in RL, rh \in RH, n \in N, cen \in BOOLEAN }

(* ======================================================================= *)
(* Sphere(radius, circularSegments): an octahedron subdivided m times and  *)
(* projected; segments "always rounded up to the nearest factor of four".  *)
(* Every face plane is at distance >= R*m/sqrt(m^2+2) from the centre      *)
(* (equality for m = 1, 2: measured, DESIGN.md C17); vertices on the sphere*)
(* ======================================================================= *)
SphereM(R, segs, q) == IF segs > 0 THEN (segs + 3) \div 4 ELSE (GetSeg(q, R) + 3) \div 4
SphereDenM(R, m) ==
  IF m = 1
  THEN Classify(LAMBDA P : Abs(P[1]) + Abs(P[2]) + Abs(P[3]) < 2 * R,
                LAMBDA P : Abs(P[1]) + Abs(P[2]) + Abs(P[3]) > 2 * R)
  ELSE Classify(LAMBDA P : (Sq(P[1]) + Sq(P[2]) + Sq(P[3])) * (m * m + 2) < 4 * R * R * m * m,
                LAMBDA P : Sq(P[1]) + Sq(P[2]) + Sq(P[3]) > 4 * R * R)
SphereDen(R, segs, q) == IF R <= 0 THEN Nothing ELSE SphereDenM(R, SphereM(R, segs, q))
SphereCases(d) ==
  LET RR == -1..4
      S == IF Big THEN {-4, 0, 1, 3, 4, 5, 7, 8, 9, 12, 16, 20} ELSE {0, 1, 4, 5, 8, 12}
  IN { [kind |-> "sphere", R |-> R, n |-> n] : R \in RR, n \in S }

(* ======================================================================= *)
(* Tetrahedron(): vertices (-1,-1,1),(-1,1,-1),(1,-1,-1),(1,1,1); scaled by*)
(* an integer k through Scale: inside iff v.p > -k for the four vertices v *)
(* ======================================================================= *)
TetV == { <<-1,-1,1>>, <<-1,1,-1>>, <<1,-1,-1>>, <<1,1,1>> }
TetDen(k) == Classify(LAMBDA P : \A v \in TetV : v[1]*P[1] + v[2]*P[2] + v[3]*P[3] > -2 * k,
                      LAMBDA P : \E v \in TetV : v[1]*P[1] + v[2]*P[2] + v[3]*P[3] < -2 * k)
TetCases(d) == { [kind |-> "tetra", k |-> k] : k \in 1..3 }

(* ======================================================================= *)
(* planar polygons: signed crossing number on integer coordinates          *)
(* ======================================================================= *)
EdgesOf(polys) == UNION { { << poly[j], poly[(j % Len(poly)) + 1] >> : j \in 1..Len(poly) } : poly \in SeqRange(polys) }
(* classification of the point (px,py) against the edge set E:  "in" =     *)
(* winding 1, "out" = winding 0, "band" = on an edge or a vertex lies on   *)
(* the horizontal line through the point (not decided), "bad" otherwise    *)
PolyCls(E, px, py) ==
  LET cr(e) == (e[2][1] - e[1][1]) * (py - e[1][2]) - (e[2][2] - e[1][2]) * (px - e[1][1])
      strad(e) == (e[1][2] < py) # (e[2][2] < py)
      up == { e \in E : strad(e) /\ e[2][2] > e[1][2] /\ cr(e) > 0 }
      dn == { e \in E : strad(e) /\ e[2][2] < e[1][2] /\ cr(e) < 0 }
      w == Cardinality(up) - Cardinality(dn)
  IN IF \E e \in E : e[1][2] = py \/ e[2][2] = py \/ (strad(e) /\ cr(e) = 0) THEN "band"
     ELSE IF w = 1 THEN "in" ELSE IF w = 0 THEN "out" ELSE "bad"
(* twice the signed area (shoelace)                                        *)
RECURSIVE Shoe(_, _)
Shoe(poly, j) == IF j > Len(poly) THEN 0
                 ELSE LET a == poly[j]  b == poly[(j % Len(poly)) + 1]
                      IN a[1] * b[2] - a[2] * b[1] + Shoe(poly, j + 1)
RECURSIVE Area2(_)
Area2(polys) == IF polys = <<>> THEN 0 ELSE Shoe(Head(polys), 1) + Area2(Tail(polys))
RECURSIVE NVerts(_)
NVerts(polys) == IF polys = <<>> THEN 0 ELSE Len(Head(polys)) + NVerts(Tail(polys))

PolyLib(name) ==
  CASE name = "rect"    -> << << <<0,0>>, <<3,0>>, <<3,2>>, <<0,2>> >> >>
    [] name = "rectC"   -> << << <<-2,-1>>, <<2,-1>>, <<2,1>>, <<-2,1>> >> >>
    [] name = "L"       -> << << <<-1,-1>>, <<2,-1>>, <<2,0>>, <<0,0>>, <<0,2>>, <<-1,2>> >> >>
    [] name = "holed"   -> << << <<-2,-2>>, <<2,-2>>, <<2,2>>, <<-2,2>> >>,
                              << <<-1,-1>>, <<-1,1>>, <<1,1>>, <<1,-1>> >> >>
    [] name = "two"     -> << << <<-3,-1>>, <<-1,-1>>, <<-1,1>>, <<-3,1>> >>,
                              << <<1,0>>, <<3,0>>, <<3,2>>, <<1,2>> >> >>
    [] name = "tri"     -> << << <<0,0>>, <<3,0>>, <<0,3>> >> >>
    [] name = "diamond" -> << << <<2,0>>, <<0,2>>, <<-2,0>>, <<0,-2>> >> >>
    [] name = "none"    -> << >>
    [] name = "emptyc"  -> << << >> >>                                  \* one contour without vertices
    [] name = "onept"   -> << << <<1,1>> >> >>
    [] name = "twopt"   -> << << <<0,0>>, <<2,1>> >> >>
Degenerate(name) == name \in {"emptyc", "onept", "twopt"}
Rectilinear(name) == name \in {"rect", "rectC", "L", "holed", "two"}
Holes(name) == IF name = "holed" THEN 1 ELSE 0

(* ======================================================================= *)
(* Extrude(crossSection, height, nDivisions, twist = 0, scaleTop)          *)
(* the section at relative height alpha is the polygon scaled by           *)
(* lerp(1, scaleTop, alpha) (side quads are planar when the scale is       *)
(* isotropic or the polygon rectilinear); nDivisions only inserts copies.  *)
(* ======================================================================= *)
(* contours with fewer than 3 vertices enclose nothing: InvalidConstruction  *)
(* or an empty result are both accepted ("any"), a crash is not            *)
ExtStatus(name, h) == IF name = "none" \/ h <= 0 THEN BAD ELSE IF Degenerate(name) THEN "any" ELSE OK
ExtDen(name, h, sc) ==
  IF ExtStatus(name, h) # OK THEN Nothing
  ELSE LET edges == EdgesOf(PolyLib(name))
           Fx(Z) == 2 * h + (sc[1] - 1) * Z
           Fy(Z) == 2 * h + (sc[2] - 1) * Z
           ES == { << Z, { << <<2 * e[1][1] * Fx(Z), 2 * e[1][2] * Fy(Z)>>, <<2 * e[2][1] * Fx(Z), 2 * e[2][2] * Fy(Z)>> >> : e \in edges } >> :
                     Z \in { 2 * z + 1 : z \in 0..(h - 1) } }
           E(Z) == (CHOOSE p \in ES : p[1] = Z)[2]
           cls(P) == PolyCls(E(P[3]), P[1] * 2 * h, P[2] * 2 * h)
           zin(P) == 0 < P[3] /\ P[3] < 2 * h
       IN Classify(LAMBDA P : zin(P) /\ cls(P) = "in",
                   LAMBDA P : P[3] < 0 \/ P[3] > 2 * h \/ (zin(P) /\ cls(P) = "out"))
(* 12 * volume = h * (2*area) * (6 + 3(sx-1) + 3(sy-1) + 2(sx-1)(sy-1))    *)
ExtVol12(name, h, sc) == h * Area2(PolyLib(name)) * (6 + 3 * (sc[1] - 1) + 3 * (sc[2] - 1) + 2 * (sc[1] - 1) * (sc[2] - 1))
(* "nDivisions: number of extra copies of the crossSection to insert":     *)
(* nDiv+2 copies (cone: the top copy is one apex per polygon); the caps are*)
(* triangulations of the polygon set (V - 2*outer + 2*holes triangles)     *)
ExtCounts(name, nd, sc) ==
  LET polys == PolyLib(name)
      nc == NVerts(polys)
      cap == nc - 2 * (Len(polys) - Holes(name)) + 2 * Holes(name)
  IN IF sc = <<0, 0>> THEN [nv |-> nc * (nd + 1) + Len(polys), nt |-> 2 * nc * nd + nc + cap]
     ELSE [nv |-> nc * (nd + 2), nt |-> 2 * nc * (nd + 1) + 2 * cap]
ExtCases(d) ==
  LET H == IF Big THEN -1..4 ELSE {-1, 0, 2, 3}
      ND == IF Big THEN 0..3 ELSE {0, 2}
      SC == { <<1,1>>, <<0,0>>, <<2,2>>, <<2,1>>, <<0,1>> }
  IN { c \in { [kind |-> "extrude", poly |-> nm, h |-> h, nd |-> nd, sc |-> sc] :
                   nm \in {"rect", "rectC", "L", "holed", "two", "tri", "diamond", "none"}, h \in H, nd \in ND, sc \in SC } :
         ~Rectilinear(c.poly) => c.sc[1] = c.sc[2] }
     \cup { [kind |-> "extrude", poly |-> nm, h |-> 1, nd |-> 0, sc |-> <<1,1>>] : nm \in {"emptyc", "onept", "twopt"} }

(* ======================================================================= *)
(* Revolve(crossSection, circularSegments, revolveDegrees)                 *)
(* "revolving this cross-section around its Y-axis and then setting this as*)
(* the Z-axis ... If the polygons cross the Y-axis, only the part on the   *)
(* positive X side is used."  Profiles are rectilinear lattice polygons.   *)
(* ======================================================================= *)
ProfLib(name) ==
  CASE name = "ring"   -> << << <<1,0>>, <<3,0>>, <<3,2>>, <<1,2>> >> >>
    [] name = "axis"   -> << << <<0,-1>>, <<2,-1>>, <<2,1>>, <<0,1>> >> >>
    [] name = "cross"  -> << << <<-2,0>>, <<3,0>>, <<3,1>>, <<-2,1>> >> >>
    [] name = "neg"    -> << << <<-3,0>>, <<-1,0>>, <<-1,1>>, <<-3,1>> >> >>
    [] name = "Lprof"  -> << << <<1,-2>>, <<3,-2>>, <<3,-1>>, <<2,-1>>, <<2,1>>, <<1,1>> >> >>
    [] name = "crossL" -> << << <<-1,0>>, <<3,0>>, <<3,1>>, <<1,1>>, <<1,2>>, <<-1,2>> >> >>
    [] name = "posneg" -> << << <<1,0>>, <<3,0>>, <<3,2>>, <<1,2>> >>, << <<-3,0>>, <<-1,0>>, <<-1,1>>, <<-3,1>> >> >>
    [] name = "none"   -> << >>
(* the clipping loop of Revolve (constructors.cpp:311-337): vertices with  *)
(* x >= 0 are kept, an edge whose ends differ in (x < 0) gets the vertex   *)
(* (0, y) (horizontal edges here: same y); all-negative polygons vanish    *)
RECURSIVE ClipFrom(_, _)
ClipFrom(poly, j) ==
  IF j > Len(poly) THEN <<>>
  ELSE LET a == poly[j]  b == poly[(j % Len(poly)) + 1]
       IN (IF a[1] >= 0 THEN <<a>> ELSE <<>>) \o
          (IF (a[1] < 0) # (b[1] < 0) THEN << <<0, a[2]>> >> ELSE <<>>) \o ClipFrom(poly, j + 1)
RECURSIVE ClipAll(_)
ClipAll(polys) ==
  IF polys = <<>> THEN <<>>
  ELSE LET p == Head(polys)
       IN IF \A j \in 1..Len(p) : p[j][1] < 0 THEN ClipAll(Tail(polys))
          ELSE <<ClipFrom(p, 1)>> \o ClipAll(Tail(polys))
RevStatus(name) == IF ClipAll(ProfLib(name)) = <<>> THEN BAD ELSE OK
RevRadius(name) == LET c == ClipAll(ProfLib(name)) IN SetMax({0} \cup UNION { { p[j][1] : j \in 1..Len(p) } : p \in SeqRange(c) })
(* number of quarter turns swept (revolveDegrees > 360 is clamped)         *)
RevA(deg) == IF deg >= 360 THEN 4 ELSE deg \div 90
(* "Default is calculated by the static Defaults": segments of the full    *)
(* circle times the fraction revolved (truncated)                          *)
RevNd(name, n, deg, q) == IF n > 2 THEN n ELSE (GetSeg(q, RevRadius(name)) * Min2(deg, 360)) \div 360
RevDenNd(name, a, nd) ==
  LET E == { << <<2 * e[1][1], 2 * e[1][2]>>, <<2 * e[2][1], 2 * e[2][2]>> >> : e \in EdgesOf(ProfLib(name)) }
      (* pixels [k,k+1] x (row of Z) of the profile on the positive side      *)
      FR == { kz \in (0..3) \X { 2 * z + 1 : z \in Coord } : PolyCls(E, 2 * kz[1] + 1, kz[2]) = "in" }
      Filled(k, Z) == <<k, Z>> \in FR
      secin(P) == CASE a = 4 -> TRUE
                    [] a = 1 -> P[1] > 0 /\ P[2] > 0
                    [] a = 2 -> P[2] > 0
                    [] a = 3 -> ~(P[1] > 0 /\ P[2] < 0)
      radin(P) == \E lo \in 0..3 : \E hi \in (lo + 1)..4 :
                     /\ \A k \in lo..(hi - 1) : Filled(k, P[3])
                     /\ (lo = 0 \/ RadGt(P, lo, 1, a, nd))
                     /\ RadLt(P, hi, 1, a, nd)
      radout(P) == \A k \in 0..3 : Filled(k, P[3]) => ((k > 0 /\ RadLt(P, k, 1, a, nd)) \/ RadGt(P, k + 1, 1, a, nd))
  IN Classify(LAMBDA P : secin(P) /\ radin(P), LAMBDA P : ~secin(P) \/ radout(P))
(* when the default count truncates to 0 divisions the documented solid is *)
(* still the swept profile: demand the weakest faceting (one chord).       *)
(* revolveDegrees <= 0: nothing demanded but a result that is a solid      *)
(* (winding 0/1 everywhere) or InvalidConstruction ("weak" cases).         *)
RevDen(name, n, deg, q) ==
  IF RevStatus(name) = BAD \/ deg <= 0 THEN Nothing
  ELSE RevDenNd(name, RevA(deg), Max2(1, RevNd(name, n, deg, q)))
RevCounts(name, a, nd) ==
  LET c == ClipAll(ProfLib(name))
      full == a = 4
      ns == IF full THEN nd ELSE nd + 1
      pos == Cardinality({ <<i, j>> \in (1..Len(c)) \X (1..8) : j <= Len(c[i]) /\ c[i][j][1] > 0 })
      axs == NVerts(c) - pos
      side(p) == LET n == Len(p)
                     t(j) == LET u == p[j][1] > 0  v == p[(j % n) + 1][1] > 0
                             IN IF u /\ v THEN 2 * nd ELSE IF u \/ v THEN nd ELSE 0
                     RECURSIVE S(_)
                     S(j) == IF j > n THEN 0 ELSE t(j) + S(j + 1)
                 IN S(1)
      RECURSIVE Sides(_)
      Sides(i) == IF i > Len(c) THEN 0 ELSE side(c[i]) + Sides(i + 1)
      caps == IF full THEN 0 ELSE 2 * (NVerts(c) - 2 * Len(c))
  IN [nv |-> pos * ns + axs, nt |-> Sides(1) + caps]
RevCases(d) ==
  LET N == IF Big THEN {0, 3, 4, 5, 8, 12} ELSE {0, 3, 4, 8}
      DG == {90, 180, 270, 360, 400}
  IN { [kind |-> "revolve", prof |-> nm, n |-> n, deg |-> dg] :
         nm \in {"ring", "axis", "cross", "neg", "Lprof", "crossL", "posneg", "none"}, n \in N, dg \in DG }
     \cup { [kind |-> "revolve", prof |-> nm, n |-> 8, deg |-> dg] : nm \in {"ring", "axis"}, dg \in {-90, 0} }

(* ======================================================================= *)
(* transforms: integer affine maps p -> M p + t                            *)
(* ======================================================================= *)
I3 == << <<1,0,0>>, <<0,1,0>>, <<0,0,1>> >>
MatMul(A, B) == [i \in 1..3 |-> [j \in 1..3 |-> A[i][1]*B[1][j] + A[i][2]*B[2][j] + A[i][3]*B[3][j]]]
MatVec(A, v) == [i \in 1..3 |-> A[i][1]*v[1] + A[i][2]*v[2] + A[i][3]*v[3]]
Det3(A) == A[1][1]*(A[2][2]*A[3][3] - A[2][3]*A[3][2]) - A[1][2]*(A[2][1]*A[3][3] - A[2][3]*A[3][1])
           + A[1][3]*(A[2][1]*A[3][2] - A[2][2]*A[3][1])
Nx(i) == (i % 3) + 1
(* adjugate: Adj(A) * A = det(A) * I                                        *)
Adj3(A) == [i \in 1..3 |-> [j \in 1..3 |->
             A[Nx(j)][Nx(i)] * A[Nx(Nx(j))][Nx(Nx(i))] - A[Nx(j)][Nx(Nx(i))] * A[Nx(Nx(j))][Nx(i)]]]
AffComp(h, g) == [M |-> MatMul(h.M, g.M), t |-> [i \in 1..3 |-> MatVec(h.M, g.t)[i] + h.t[i]]]
AffId == [M |-> I3, t |-> <<0,0,0>>]
(* the matrix of a Lattice.tla group element: p'[i] = sg[i]*p[ax[i]] + tr[i] *)
AffOfG(g) == [M |-> [i \in 1..3 |-> [j \in 1..3 |-> IF g.ax[i] = j THEN g.sg[i] ELSE 0]], t |-> g.tr]

RECURSIVE GPow(_, _)
GPow(g, k) == IF k = 0 THEN Id3 ELSE Comp(g, GPow(g, k - 1))
Quarter(deg) == (((deg \div 90) % 4) + 4) % 4
(* Rotate(x, y, z): "rotated in x-y-z order" about the global axes         *)
RotG(a) == Comp(GPow(Gen("RZ"), Quarter(a[3])), Comp(GPow(Gen("RY"), Quarter(a[2])), GPow(Gen("RX"), Quarter(a[1]))))
(* Mirror(n): p - 2 n (n.p)/|n|^2 for n = k e_i or n = s_i e_i + s_j e_j    *)
MirrorM(n) ==
  LET nn == Sq(n[1]) + Sq(n[2]) + Sq(n[3])
  IN [i \in 1..3 |-> [j \in 1..3 |-> ((IF i = j THEN nn ELSE 0) - 2 * n[i] * n[j]) \div nn]]
MirrorOK(n) == LET nn == Sq(n[1]) + Sq(n[2]) + Sq(n[3])
               IN nn > 0 /\ \A i \in 1..3 : \A j \in 1..3 : (2 * n[i] * n[j]) % nn = 0
DiagM(v) == [i \in 1..3 |-> [j \in 1..3 |-> IF i = j THEN v[i] ELSE 0]]
(* the point map of one API call                                           *)
OpAff(o) ==
  CASE o.op = "Rotate"    -> AffOfG(RotG(o.v))
    [] o.op = "Translate" -> [M |-> I3, t |-> o.v]
    [] o.op = "Scale"     -> [M |-> DiagM(o.v), t |-> <<0,0,0>>]
    [] o.op = "Mirror"    -> [M |-> MirrorM(o.v), t |-> <<0,0,0>>]
    [] o.op \in {"Transform", "Warp"} -> [M |-> o.m, t |-> o.v]
RECURSIVE SeqAff(_)
SeqAff(ops) == IF ops = <<>> THEN AffId ELSE AffComp(SeqAff(Tail(ops)), OpAff(Head(ops)))   \* first op applied first

(* base solids (cell sets); built by the driver from `boxes`               *)
BaseBoxes(name) ==
  CASE name = "hook" -> << << <<-1,-1,-1>>, <<2,0,0>> >>, << <<-1,0,-1>>, <<0,1,0>> >>, << <<1,-1,0>>, <<2,0,1>> >> >>
    [] name = "box"  -> << << <<0,0,0>>, <<1,2,3>> >> >>      \* Cube({1,2,3}) itself, no Boolean
BaseCells(name) == LET b == BaseBoxes(name) IN UNION { BoxCells(b[i]) : i \in 1..Len(b) }
(* preimage test in exact arithmetic: P doubled centre, T = (M, t):        *)
(*   Q = adj(M) (P - 2t) = det(M) * (doubled preimage)                      *)
AffDen(T, S) ==
  LET d == Det3(T.M)
      ad == Adj3(T.M)
      sgn == IF d > 0 THEN 1 ELSE -1
      D2 == 2 * Abs(d)
      t2 == << 2 * T.t[1], 2 * T.t[2], 2 * T.t[3] >>
      Q(P) == LET x == P[1] - t2[1]  y == P[2] - t2[2]  z == P[3] - t2[3]
              IN << sgn * (ad[1][1] * x + ad[1][2] * y + ad[1][3] * z),
                    sgn * (ad[2][1] * x + ad[2][2] * y + ad[2][3] * z),
                    sgn * (ad[3][1] * x + ad[3][2] * y + ad[3][3] * z) >>
      (* the cell whose open box contains the preimage, if any; the cells whose  *)
      (* closed box contains it                                                  *)
      inn(q) == (\A i \in 1..3 : q[i] % D2 # 0) /\ << q[1] \div D2, q[2] \div D2, q[3] \div D2 >> \in S
      cand(q, i) == IF q[i] % D2 = 0 THEN { q[i] \div D2, (q[i] \div D2) - 1 } ELSE { q[i] \div D2 }
      out(q) == \A a \in cand(q, 1) : \A b \in cand(q, 2) : \A e \in cand(q, 3) : <<a, b, e>> \notin S
  IN Classify(LAMBDA P : inn(Q(P)), LAMBDA P : out(Q(P)))
ImgInWindow(T, S) == \A cc \in S : \A dl \in {0,1} \X {0,1} \X {0,1} :
   LET p == MatVec(T.M, <<cc[1] + dl[1], cc[2] + dl[2], cc[3] + dl[3]>>) IN \A i \in 1..3 : p[i] + T.t[i] \in LCoord
IsMonomial1(M) == \A i \in 1..3 : Cardinality({ j \in 1..3 : M[i][j] # 0 }) = 1 /\ \A j \in 1..3 : M[i][j] \in {-1, 0, 1}
(* the Lattice.tla element of a +-1 monomial affine map                    *)
GOfAff(T) == [ax |-> [i \in 1..3 |-> CHOOSE j \in 1..3 : T.M[i][j] # 0],
              sg |-> [i \in 1..3 |-> T.M[i][CHOOSE j \in 1..3 : T.M[i][j] # 0]],
              tr |-> T.t]

Angles == {0, 90, 180, 270}
SignedPerms == { g \in [ax : {<<1,2,3>>, <<1,3,2>>, <<2,1,3>>, <<2,3,1>>, <<3,1,2>>, <<3,2,1>>},
                        sg : {-1, 1} \X {-1, 1} \X {-1, 1}, tr : {<<0,0,0>>}] : TRUE }
XOps1(d) ==
  { [op |-> "Rotate", v |-> <<a, b, c>>] : a \in Angles, b \in Angles, c \in Angles }
  \cup { [op |-> "Rotate", v |-> v] : v \in { <<-90,0,0>>, <<0,-180,450>>, <<360,-270,0>>, <<720,90,-90>>, <<450,450,450>>, <<0,0,-270>> } }
  \cup { [op |-> "Translate", v |-> v] : v \in { <<1,0,0>>, <<0,-2,1>>, <<-1,-1,-1>>, <<2,1,-2>> } }
  \cup { [op |-> "Scale", v |-> <<a, b, c>>] : a \in {-2,-1,1,2}, b \in {-2,-1,1,2}, c \in {-2,-1,1,2} }
  \cup { [op |-> "Mirror", v |-> v] : v \in { n \in {-2,-1,0,1,2} \X {-2,-1,0,1,2} \X {-2,-1,0,1,2} : MirrorOK(n) } }
  \cup { [op |-> "Transform", m |-> AffOfG(g).M, v |-> <<1,0,-1>>] : g \in SignedPerms }
  \cup { [op |-> "Warp", m |-> AffOfG(g).M, v |-> <<0,1,0>>] : g \in { h \in SignedPerms : Det(h) = 1 } }
  \cup { [op |-> "Warp", m |-> DiagM(<<2,1,2>>), v |-> <<-1,0,0>>] }
XGens == { [op |-> "Rotate", v |-> <<90,0,0>>], [op |-> "Rotate", v |-> <<0,90,0>>], [op |-> "Rotate", v |-> <<0,0,90>>],
           [op |-> "Rotate", v |-> <<90,90,0>>], [op |-> "Mirror", v |-> <<1,0,0>>], [op |-> "Mirror", v |-> <<0,1,-1>>],
           [op |-> "Scale", v |-> <<1,-1,1>>], [op |-> "Scale", v |-> <<2,1,1>>], [op |-> "Translate", v |-> <<1,0,-1>>],
           [op |-> "Transform", m |-> << <<0,0,1>>, <<1,0,0>>, <<0,-1,0>> >>, v |-> <<0,1,0>>] }
XformCases(d) ==
  { [kind |-> "xform", base |-> b, ops |-> <<o>>] : b \in {"hook", "box"}, o \in XOps1(0) }
  \cup { [kind |-> "xform", base |-> "hook", ops |-> <<o1, o2>>] : o1 \in XGens, o2 \in XGens }
  \cup { [kind |-> "xform", base |-> "hook", ops |-> << [op |-> "Mirror", v |-> <<0,0,0>>] >>] }
XformAff(c) == SeqAff(c.ops)
XformZeroMirror(c) == \E i \in 1..Len(c.ops) : c.ops[i].op = "Mirror" /\ c.ops[i].v = <<0,0,0>>
(* general integer matrices of non-zero determinant (shears, non-monomial) *)
AffMats(d) ==
  LET E == IF Big THEN {-1, 0, 1} ELSE {-1, 0, 1}
      all == { << <<a,b,c>>, <<e,f,g>>, <<h,i,j>> >> : a \in E, b \in E, c \in E, e \in E, f \in E, g \in E, h \in E, i \in E, j \in E }
      key(M) == (M[1][1] + 3*M[1][2] + 9*M[1][3] + 27*M[2][1] + 81*M[2][2] + 243*M[2][3] + 729*M[3][1] + 2187*M[3][2] + 6561*M[3][3] + 9841)
      (* the preimage of a cell centre avoids the lattice planes (odd doubled   *)
      (* coordinates) when every row of the adjugate has an odd number of odd   *)
      (* entries: such matrices give decided cells                              *)
      decisive(M) == LET ad == Adj3(M) IN \A i \in 1..3 : Cardinality({ j \in 1..3 : ad[i][j] % 2 = 1 }) % 2 = 1
  IN { M \in all : Det3(M) # 0 /\ (IF Big THEN key(M) % 13 = 0 ELSE key(M) % 13 = 0 /\ decisive(M)) }
     \cup { << <<2,1,0>>, <<0,1,0>>, <<0,0,1>> >>, << <<1,0,0>>, <<2,2,0>>, <<0,0,1>> >>, << <<1,1,0>>, <<-1,1,0>>, <<0,0,2>> >>,
            << <<2,0,1>>, <<0,-1,0>>, <<1,0,1>> >> }
AffCases(d) == { [kind |-> "affine", base |-> "hook", ops |-> << [op |-> "Transform", m |-> M, v |-> t] >>] :
                   M \in AffMats(0), t \in { <<0,0,0>>, <<1,-1,0>> } }

(* ======================================================================= *)
(* LevelSet(sdf, bounds, edgeLength, level, tolerance)                     *)
(* SDF terms: box(lo,hi) = min_i min(p_i - lo_i, hi_i - p_i), sphere(c,R) =*)
(* R - |p - c|, max (union), min (intersection), neg.  All are 1-Lipschitz,*)
(* so |sdf(p) - level| > mu implies that p is farther than mu from the     *)
(* level set.  mu = 2*edgeLength >= the diagonal of one grid cell.         *)
(* Gt2(f, T, P): f(P/2) > T/2;  Lt2(f, T, P): f(P/2) < T/2  (T integer)    *)
(* ======================================================================= *)
RECURSIVE Gt2(_, _, _), Lt2(_, _, _)
Gt2(f, T, P) ==
  CASE f.f = "box"    -> \A i \in 1..3 : P[i] - 2 * f.lo[i] > T /\ 2 * f.hi[i] - P[i] > T
    [] f.f = "sphere" -> 2 * f.R - T > 0 /\ Sq(P[1] - 2*f.c[1]) + Sq(P[2] - 2*f.c[2]) + Sq(P[3] - 2*f.c[3]) < Sq(2 * f.R - T)
    [] f.f = "max"    -> Gt2(f.a, T, P) \/ Gt2(f.b, T, P)
    [] f.f = "min"    -> Gt2(f.a, T, P) /\ Gt2(f.b, T, P)
    [] f.f = "neg"    -> Lt2(f.a, -T, P)
Lt2(f, T, P) ==
  CASE f.f = "box"    -> \E i \in 1..3 : P[i] - 2 * f.lo[i] < T \/ 2 * f.hi[i] - P[i] < T
    [] f.f = "sphere" -> 2 * f.R - T < 0 \/ Sq(P[1] - 2*f.c[1]) + Sq(P[2] - 2*f.c[2]) + Sq(P[3] - 2*f.c[3]) > Sq(2 * f.R - T)
    [] f.f = "max"    -> Lt2(f.a, T, P) /\ Lt2(f.b, T, P)
    [] f.f = "min"    -> Lt2(f.a, T, P) \/ Lt2(f.b, T, P)
    [] f.f = "neg"    -> Gt2(f.a, -T, P)
SBox(lo, hi) == [f |-> "box", lo |-> lo, hi |-> hi]
SSph(c, R) == [f |-> "sphere", c |-> c, R |-> R]
SdfLib(name) ==
  CASE name = "box"    -> SBox(<<-2,-2,-2>>, <<2,2,2>>)
    [] name = "slab"   -> SBox(<<-3,-1,-2>>, <<1,3,3>>)
    [] name = "ball"   -> SSph(<<0,0,0>>, 3)
    [] name = "union"  -> [f |-> "max", a |-> SBox(<<-3,-3,-3>>, <<0,0,0>>), b |-> SBox(<<-1,-1,-1>>, <<3,3,3>>)]
    [] name = "lens"   -> [f |-> "min", a |-> SBox(<<-3,-3,-2>>, <<3,3,2>>), b |-> SSph(<<0,0,0>>, 3)]
    [] name = "bitten" -> [f |-> "min", a |-> SBox(<<-3,-3,-3>>, <<3,3,3>>), b |-> [f |-> "neg", a |-> SSph(<<3,3,3>>, 3)]]
(* e2 = 2*edgeLength (edge 1/2 or 1); bounds = <<lo, hi>>                   *)
LsStatus(e2) == IF e2 <= 0 THEN BAD ELSE OK
LsDen(name, bnd, e2, lev) ==
  IF LsStatus(e2) = BAD THEN Nothing
  ELSE LET F == SdfLib(name)
           B == SBox(bnd[1], bnd[2])
           mu2 == 2 * e2                     \* doubled margin: 2 * (2 * edge)
       IN Classify(LAMBDA P : Gt2(F, 2 * lev + mu2, P) /\ Gt2(B, mu2, P),
                   LAMBDA P : Lt2(F, 2 * lev - mu2, P) \/ Lt2(B, -mu2, P))
(* the level set stays clear of the bounds: the tolerance clause applies   *)
(* to every vertex (no vertex is produced by the clipping at the bounds)   *)
LsClear(name, bnd, lev) ==
  \A c \in Cells : (\E i \in 1..3 : c[i] < bnd[1][i] + 1 \/ c[i] >= bnd[2][i] - 1) => Lt2(SdfLib(name), 2 * lev, DC(c))
LsCases(d) ==
  { [kind |-> "levelset", sdf |-> nm, bnd |-> b, e2 |-> e2, lev |-> lev, tol |-> tol] :
      nm \in {"box", "slab", "ball", "union", "lens", "bitten"},
      b \in { << <<-4,-4,-4>>, <<4,4,4>> >>, << <<-4,-4,0>>, <<4,4,4>> >>, << <<-1,-4,-4>>, <<4,2,4>> >> },
      e2 \in {1, 2}, lev \in {-1, 0, 1}, tol \in {0, 1} }
  \cup { [kind |-> "levelset", sdf |-> "box", bnd |-> << <<-4,-4,-4>>, <<4,4,4>> >>, e2 |-> e2, lev |-> 0, tol |-> 0] : e2 \in {0, -2} }

(* ======================================================================= *)
(* Quality: sequences of setter calls, then GetCircularSegments(r)         *)
(* ======================================================================= *)
QOps == { <<"A", x>> : x \in {-5, 0, 7, 30, 45, 100, 400} } \cup { <<"L", x>> : x \in {-1, 0, 2, 5} }
        \cup { <<"S", x>> : x \in {-4, 0, 1, 2, 3, 5, 8} } \cup { <<"R", 0>> }
QSeqs(d) == {<<>>} \cup { <<a>> : a \in QOps } \cup { <<a, b>> : a \in QOps, b \in QOps }
            \cup (IF Big THEN { <<a, b, c>> : a \in QOps, b \in QOps, c \in QOps } ELSE {})
QRadii == <<0, 1, 2, 3, 4, 5, 6, 7, 8, -3>>
QualityCases(d) == { [kind |-> "quality", ops |-> s] : s \in QSeqs(0) }
(* Quality settings drive the constructors ("sets the number of segments to *)
(* exactly this value")                                                     *)
QctorCases(d) ==
  { [kind |-> "qctor", ops |-> << <<"S", s>> >>, ctor |-> ct] : s \in {3, 5, 7, 8, 12},
      ct \in { [kind |-> "sphere", R |-> 3, n |-> 0], [kind |-> "cyl", h |-> 2, rl |-> 3, rh |-> -1, n |-> 0, cen |-> FALSE],
               [kind |-> "revolve", prof |-> "ring", n |-> 0, deg |-> 90], [kind |-> "revolve", prof |-> "axis", n |-> 0, deg |-> 360] } }
  \cup { [kind |-> "qctor", ops |-> << <<"A", a>>, <<"L", l>> >>, ctor |-> ct] : a \in {30, 90, 100}, l \in {1, 3},
      ct \in { [kind |-> "sphere", R |-> 3, n |-> 0], [kind |-> "cyl", h |-> 2, rl |-> 3, rh |-> -1, n |-> 0, cen |-> FALSE],
               [kind |-> "revolve", prof |-> "ring", n |-> 0, deg |-> 90] } }

(* ======================================================================= *)
(* cases, meaning, emission                                                *)
(* ======================================================================= *)
Fam(name) ==
  CASE name = "cube" -> CubeCases(0) [] name = "cyl" -> CylCases(0) [] name = "sphere" -> SphereCases(0)
    [] name = "tetra" -> TetCases(0) [] name = "extrude" -> ExtCases(0) [] name = "revolve" -> RevCases(0)
    [] name = "xform" -> XformCases(0) [] name = "affine" -> AffCases(0) [] name = "levelset" -> LsCases(0)
    [] name = "quality" -> QualityCases(0) [] name = "qctor" -> QctorCases(0)

RECURSIVE Status(_, _), Den(_, _)
Status(c, q) ==
  CASE c.kind = "cube"     -> CubeStatus(c.s)
    [] c.kind = "cyl"      -> CylStatus(c.h, c.rl, c.rh)
    [] c.kind = "sphere"   -> IF c.R <= 0 THEN BAD ELSE OK
    [] c.kind = "tetra"    -> OK
    [] c.kind = "extrude"  -> ExtStatus(c.poly, c.h)
    [] c.kind = "revolve"  -> IF c.deg <= 0 /\ RevStatus(c.prof) = OK THEN "any" ELSE RevStatus(c.prof)
    [] c.kind \in {"xform", "affine"} -> OK
    [] c.kind = "levelset" -> LsStatus(c.e2)
    [] c.kind = "quality"  -> OK
    [] c.kind = "qctor"    -> Status(c.ctor, QFold(QInit, c.ops))
Den(c, q) ==
  CASE c.kind = "cube"     -> CubeDen(c.s, c.cen)
    [] c.kind = "cyl"      -> IF CylStatus(c.h, c.rl, c.rh) = BAD THEN Nothing
                              ELSE LET n == IF c.n > 2 THEN c.n ELSE GetSeg(q, Max2(c.rl, CylRh(c.rl, c.rh)))
                                   IN CylDen(c.h, c.rl, c.rh, n, c.cen)
    [] c.kind = "sphere"   -> SphereDen(c.R, c.n, q)
    [] c.kind = "tetra"    -> TetDen(c.k)
    [] c.kind = "extrude"  -> ExtDen(c.poly, c.h, c.sc)
    [] c.kind = "revolve"  -> RevDen(c.prof, c.n, c.deg, q)
    [] c.kind \in {"xform", "affine"} -> IF XformZeroMirror(c) THEN Nothing ELSE AffDen(XformAff(c), BaseCells(c.base))
    [] c.kind = "levelset" -> LsDen(c.sdf, c.bnd, c.e2, c.lev)
    [] c.kind = "quality"  -> Nothing
    [] c.kind = "qctor"    -> Den(c.ctor, QFold(QInit, c.ops))

(* expected vertex / triangle counts (0 = not stated)                       *)
RECURSIVE Counts(_, _)
Counts(c, q) ==
  CASE c.kind = "cube" /\ CubeStatus(c.s) = OK -> [nv |-> 8, nt |-> 12]
    [] c.kind = "tetra" -> [nv |-> 4, nt |-> 4]
    [] c.kind = "sphere" /\ c.R > 0 -> LET m == SphereM(c.R, c.n, q) IN [nv |-> 4 * m * m + 2, nt |-> 8 * m * m]
    [] c.kind = "cyl" /\ CylStatus(c.h, c.rl, c.rh) = OK ->
         LET n == IF c.n > 2 THEN c.n ELSE GetSeg(q, Max2(c.rl, CylRh(c.rl, c.rh)))
         IN IF c.rl = 0 \/ c.rh = 0 THEN [nv |-> n + 1, nt |-> 2 * n - 2] ELSE [nv |-> 2 * n, nt |-> 4 * n - 4]
    [] c.kind = "extrude" /\ ExtStatus(c.poly, c.h) = OK -> ExtCounts(c.poly, c.nd, c.sc)
    [] c.kind = "revolve" /\ RevStatus(c.prof) = OK /\ c.deg > 0 /\ RevNd(c.prof, c.n, c.deg, q) > 0 ->
         RevCounts(c.prof, RevA(c.deg), RevNd(c.prof, c.n, c.deg, q))
    [] c.kind = "qctor" -> Counts(c.ctor, QFold(QInit, c.ops))
    [] OTHER -> [nv |-> 0, nt |-> 0]

(* 12 * volume where the solid is exact, -1 = not stated                    *)
Vol12(c) ==
  CASE c.kind = "cube" /\ CubeStatus(c.s) = OK -> 12 * c.s[1] * c.s[2] * c.s[3]
    [] c.kind = "extrude" /\ ExtStatus(c.poly, c.h) = OK -> ExtVol12(c.poly, c.h, c.sc)
    [] c.kind = "tetra" -> 32 * c.k * c.k * c.k
    [] c.kind \in {"xform", "affine"} -> IF XformZeroMirror(c) THEN 0 ELSE 12 * Abs(Det3(XformAff(c).M)) * Cardinality(BaseCells(c.base))
    [] OTHER -> -1

OnlyRotate(c) == c.kind = "xform" /\ \A i \in 1..Len(c.ops) : c.ops[i].op = "Rotate"

Extra(c) ==
  CASE c.kind = "extrude"  -> [polys |-> PolyLib(c.poly)]
    [] c.kind = "revolve"  -> [polys |-> ProfLib(c.prof)]
    [] c.kind = "qctor" /\ c.ctor.kind = "revolve" -> [polys |-> ProfLib(c.ctor.prof)]
    [] c.kind \in {"xform", "affine"} -> [boxes |-> BaseBoxes(c.base), basecells |-> EncSet(BaseCells(c.base)),
                                          det |-> IF XformZeroMirror(c) THEN 0 ELSE Det3(XformAff(c).M), exact |-> OnlyRotate(c)]
    [] c.kind = "levelset" -> [tree |-> SdfLib(c.sdf), clear |-> LsClear(c.sdf, c.bnd, c.lev)]
    [] c.kind = "quality"  -> [radii |-> QRadii, segs |-> [i \in 1..Len(QRadii) |-> GetSeg(QFold(QInit, c.ops), QRadii[i])],
                               state |-> QFold(QInit, c.ops)]
    [] OTHER -> [none |-> 0]

VARIABLES c, den, done
vars == <<c, den, done>>
(* the meaning is computed in Next so that TLC's workers share the work     *)
Init == c \in Fam(Family) /\ den = Nothing /\ done = FALSE
Emitted(dn) == [c |-> c, st |-> Status(c, QInit), in |-> EncSet(dn.in), band |-> EncSet(dn.band),
                cnt |-> Counts(c, QInit), vol12 |-> Vol12(c), x |-> Extra(c)]
Next == /\ ~done /\ done' = TRUE /\ UNCHANGED c
        /\ den' = Den(c, QInit)
        /\ (Emit => PrintT(<<"BEH", ToJson(Emitted(den'))>>))

(* ======================================================================= *)
(* invariants (checked by TLC on every enumerated case)                    *)
(* ======================================================================= *)
(* the classification is a partition of the window; an error is empty      *)
DenSaneB == /\ den.in \cap den.band = {}
           /\ den.in \subseteq Cells /\ den.band \subseteq Cells
           /\ (Status(c, QInit) = BAD => den.in = {} /\ den.band = {})
(* solids with an exact cell denotation: nothing undecided, |cells| = volume*)
ExactSolidsB ==
  /\ (c.kind = "cube" /\ CubeStatus(c.s) = OK /\ (~c.cen \/ \A i \in 1..3 : c.s[i] % 2 = 0) /\ (\A i \in 1..3 : c.s[i] <= K))
        => den.band = {} /\ 12 * Cardinality(den.in) = Vol12(c)
  /\ (c.kind = "extrude" /\ ExtStatus(c.poly, c.h) = OK /\ c.sc = <<1,1>> /\ Rectilinear(c.poly) /\ c.h <= K)
        => den.band = {} /\ 12 * Cardinality(den.in) = Vol12(c)
  /\ (c.kind = "extrude" /\ c.poly # "none" /\ ~Degenerate(c.poly)) =>
        \A Z \in {1, 3} : \A X \in {-7, -3, 1, 5} : \A Y \in {-5, -1, 3, 7} :
           PolyCls({ << <<2*e[1][1], 2*e[1][2]>>, <<2*e[2][1], 2*e[2][2]>> >> : e \in EdgesOf(PolyLib(c.poly)) }, X, Y) # "bad"
(* finer faceting never demands less: the n-gon is inscribed in the 2n-gon  *)
RefinesB ==
  /\ (c.kind = "sphere" /\ c.R > 0) =>
        LET m == SphereM(c.R, c.n, QInit) IN SphereDenM(c.R, m).in \subseteq SphereDenM(c.R, 2 * m).in
  /\ (c.kind = "cyl" /\ CylStatus(c.h, c.rl, c.rh) = OK /\ ~c.cen) =>
        LET n == CylN(c.rl, c.rh, c.n) IN den.in \subseteq CylDen(c.h, c.rl, c.rh, 2 * n, c.cen).in
  /\ (c.kind = "revolve" /\ RevStatus(c.prof) = OK /\ c.deg > 0) =>
        LET nd == Max2(1, RevNd(c.prof, c.n, c.deg, QInit)) IN den.in \subseteq RevDenNd(c.prof, RevA(c.deg), 2 * nd).in
(* the two denotations of a lattice-group transform agree; |det| scales the *)
(* cell count; the adjugate is right; Euler triples are the 24 rotations    *)
GroupSoundB ==
  c.kind \in {"xform", "affine"} /\ ~XformZeroMirror(c) =>
    LET T == XformAff(c)  S == BaseCells(c.base)
    IN /\ Det3(T.M) # 0
       /\ MatMul(Adj3(T.M), T.M) = DiagM(<<Det3(T.M), Det3(T.M), Det3(T.M)>>)
       /\ IsMonomial1(T.M) => /\ den.band = {}
                              /\ den.in = ApCells(GOfAff(T), S)
                              /\ Det(GOfAff(T)) = Det3(T.M)
       /\ (\A i \in 1..3 : Cardinality({ j \in 1..3 : T.M[i][j] # 0 }) = 1) /\ ImgInWindow(T, S)
            => den.band = {} /\ Cardinality(den.in) = Abs(Det3(T.M)) * Cardinality(S)
       /\ \A k \in 1..Len(c.ops) : c.ops[k].op = "Rotate" => Det3(OpAff(c.ops[k]).M) = 1
       /\ \A k \in 1..Len(c.ops) : c.ops[k].op = "Mirror" => Det3(OpAff(c.ops[k]).M) = -1 /\ MatMul(OpAff(c.ops[k]).M, OpAff(c.ops[k]).M) = I3
(* checked once: the chiral base has 48 distinct images (every slip of a    *)
(* sign or an axis changes the cell set) and the 64 Euler triples of        *)
(* quarter turns are exactly the 24 rotations                               *)
ASSUME Cardinality({ ApCells(g, BaseCells("hook")) : g \in SignedPerms }) = 48
ASSUME Cardinality({ ApCells(g, BaseCells("box")) : g \in SignedPerms }) = 48
ASSUME { RotG(<<a, b, cc>>) : a \in Angles, b \in Angles, cc \in Angles } = { g \in SignedPerms : Det(g) = 1 }
(* Quality: the code's rounding arithmetic is the documented rounding; the  *)
(* count is a multiple of four >= 4 unless forced, monotone in the radius   *)
QualityDocB ==
  c.kind = "quality" =>
    LET q == QFold(QInit, c.ops)
    IN /\ q.ang > 0 /\ q.len > 0 /\ (q.seg = 0 \/ q.seg >= 3)
       /\ \A r \in 0..8 : GetSeg(q, r) # -1 => /\ GetSeg(q, r) = DocSeg(q, r)
                                               /\ (q.seg = 0 => GetSeg(q, r) % 4 = 0 /\ GetSeg(q, r) >= 4)
                                               /\ (q.seg > 0 => GetSeg(q, r) = q.seg)
                                               /\ GetSeg(q, r) = GetSeg(q, -r)
       /\ \A r \in 0..7 : GetSeg(q, r) # -1 /\ GetSeg(q, r + 1) # -1 => GetSeg(q, r) <= GetSeg(q, r + 1)
(* LevelSet: the demanded cells are inside {sdf > level}, inside the bounds *)
LevelSetSaneB ==
  c.kind = "levelset" /\ LsStatus(c.e2) = OK =>
    /\ \A cc \in den.in : Gt2(SdfLib(c.sdf), 2 * c.lev, DC(cc)) /\ Gt2(SBox(c.bnd[1], c.bnd[2]), 0, DC(cc))
    /\ \A cc \in Cells : Lt2(SdfLib(c.sdf), 2 * c.lev, DC(cc)) => cc \notin den.in
    /\ \A cc \in Cells : ~(Gt2(SdfLib(c.sdf), 2 * c.lev, DC(cc)) /\ Lt2(SdfLib(c.sdf), 2 * c.lev, DC(cc)))
DenSane == done => DenSaneB
ExactSolids == done => ExactSolidsB
Refines == done => RefinesB
GroupSound == done => GroupSoundB
QualityDoc == done => QualityDocB
LevelSetSane == done => LevelSetSaneB
=============================================================================
