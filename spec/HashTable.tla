----------------------------- MODULE HashTable -----------------------------
(***************************************************************************)
(* src/hashtable.h HashTableD::Insert, one step per shared access (C13):    *)
(*   L: if (Full()) return          load used_                              *)
(*   C: found = CAS(keys[idx], Open, key)   strong CAS                       *)
(*   U: used_++                     (only the claimer)                       *)
(*   V: values[idx] = val           plain store by the claimer               *)
(*      found = key -> return ; otherwise idx = (idx + step) mod Size, L     *)
(* Threads insert fixed lists of <<key, val>>; Hash(key) = key % Size so     *)
(* that colliding keys are easy to state.  At quiescence every inserted key  *)
(* must be retrievable with its value unless the table reports Full.         *)
(* CONSTANT Claim: "cas" = the code; "loadstore" = the regression class      *)
(* "check-then-write" (non-atomic claim), refuted by TLC.                    *)
(***************************************************************************)
EXTENDS Naturals, Sequences, FiniteSets, TLC, Json

CONSTANTS Size, StepC, Work, Claim, Emit, MaxSwitch
Thr == 1..Len(Work)
Open == 99

VARIABLES keys, vals, used, pc, job, idx, seenOpen, sched, last, switches, gaveUp
vars == <<keys, vals, used, pc, job, idx, seenOpen, sched, last, switches, gaveUp>>

Init == /\ keys = [i \in 0..(Size-1) |-> Open] /\ vals = [i \in 0..(Size-1) |-> 0] /\ used = 0
        /\ pc = [t \in Thr |-> "Start"] /\ job = [t \in Thr |-> 1] /\ idx = [t \in Thr |-> 0]
        /\ seenOpen = [t \in Thr |-> FALSE] /\ sched = <<>> /\ last = 0 /\ switches = 0 /\ gaveUp = {}

Sched(t) == IF Emit THEN /\ sched' = Append(sched, t)
                         /\ switches' = IF last # 0 /\ last # t THEN switches + 1 ELSE switches
                         /\ last' = t
            ELSE UNCHANGED <<sched, last, switches>>
Key(t) == Work[t][job[t]][1]
Val(t) == Work[t][job[t]][2]
NextJob(t) == job' = [job EXCEPT ![t] = job[t] + 1] /\ pc' = [pc EXCEPT ![t] = "Start"]

Start(t) == /\ pc[t] = "Start"
            /\ IF job[t] > Len(Work[t]) THEN pc' = [pc EXCEPT ![t] = "Done"] /\ idx' = idx
               ELSE pc' = [pc EXCEPT ![t] = "L"] /\ idx' = [idx EXCEPT ![t] = Key(t) % Size]
            /\ UNCHANGED <<keys, vals, used, job, seenOpen, sched, last, switches, gaveUp>>
L(t) == /\ pc[t] = "L"
        /\ IF used * 2 > Size THEN NextJob(t) /\ gaveUp' = gaveUp \cup {Key(t)}
           ELSE pc' = [pc EXCEPT ![t] = "C"] /\ UNCHANGED <<job, gaveUp>>
        /\ Sched(t) /\ UNCHANGED <<keys, vals, used, idx, seenOpen>>
C(t) == /\ pc[t] = "C"
        /\ IF Claim = "cas"
             THEN IF keys[idx[t]] = Open
                    THEN keys' = [keys EXCEPT ![idx[t]] = Key(t)] /\ pc' = [pc EXCEPT ![t] = "U"] /\ UNCHANGED <<job, idx, seenOpen>>
                    ELSE /\ keys' = keys /\ seenOpen' = seenOpen
                         /\ IF keys[idx[t]] = Key(t) THEN NextJob(t) /\ idx' = idx
                            ELSE idx' = [idx EXCEPT ![t] = (idx[t] + StepC) % Size] /\ pc' = [pc EXCEPT ![t] = "L"] /\ job' = job
             ELSE \* regression: load, then (separately) store
                  IF seenOpen[t]
                    THEN keys' = [keys EXCEPT ![idx[t]] = Key(t)] /\ seenOpen' = [seenOpen EXCEPT ![t] = FALSE]
                         /\ pc' = [pc EXCEPT ![t] = "U"] /\ UNCHANGED <<job, idx>>
                    ELSE IF keys[idx[t]] = Open THEN seenOpen' = [seenOpen EXCEPT ![t] = TRUE] /\ UNCHANGED <<keys, pc, job, idx>>
                         ELSE /\ keys' = keys /\ seenOpen' = seenOpen
                              /\ IF keys[idx[t]] = Key(t) THEN NextJob(t) /\ idx' = idx
                                 ELSE idx' = [idx EXCEPT ![t] = (idx[t] + StepC) % Size] /\ pc' = [pc EXCEPT ![t] = "L"] /\ job' = job
        /\ Sched(t) /\ UNCHANGED <<vals, used, gaveUp>>
U(t) == /\ pc[t] = "U" /\ used' = used + 1 /\ pc' = [pc EXCEPT ![t] = "V"]
        /\ Sched(t) /\ UNCHANGED <<keys, vals, job, idx, seenOpen, gaveUp>>
V(t) == /\ pc[t] = "V" /\ vals' = [vals EXCEPT ![idx[t]] = Val(t)] /\ NextJob(t)
        /\ Sched(t) /\ UNCHANGED <<keys, used, idx, seenOpen, gaveUp>>

Step(t) == Start(t) \/ L(t) \/ C(t) \/ U(t) \/ V(t)
AllDone == \A t \in Thr : pc[t] = "Done"
Finish == /\ AllDone /\ last # 99
          /\ (Emit => PrintT(<<"BEH", ToJson([sched |-> sched, size |-> Size, step |-> StepC, work |-> Work])>>))
          /\ last' = 99 /\ UNCHANGED <<keys, vals, used, pc, job, idx, seenOpen, sched, switches, gaveUp>>
Next == (\E t \in Thr : Step(t)) \/ Finish
SwitchBound == switches <= MaxSwitch

(* operator[] : probe until the key or an open slot *)
RECURSIVE Probe(_, _, _)
Probe(k, i, n) == IF n = 0 THEN 0 ELSE IF keys[i] = k \/ keys[i] = Open THEN i ELSE Probe(k, (i + StepC) % Size, n - 1)
Lookup(k) == LET i == Probe(k, k % Size, Size) IN IF keys[i] = k THEN vals[i] ELSE 0
Inserted == UNION { { Work[t][j] : j \in 1..Len(Work[t]) } : t \in Thr }
Retrievable == AllDone => \A kv \in Inserted : Lookup(kv[1]) = kv[2] \/ kv[1] \in gaveUp
(* a key may only be dropped because the table reported Full *)
UsedCountsClaims == AllDone => used = Cardinality({ i \in 0..(Size-1) : keys[i] # Open })
NoDuplicateKeys == \A i, j \in 0..(Size-1) : (i # j /\ keys[i] # Open) => keys[i] # keys[j]
=============================================================================
