----------------------------- MODULE RadixTree -----------------------------
(***************************************************************************)
(* C14 - spatial indices report exactly the overlapping pairs.             *)
(*                                                                         *)
(* Operational part (a transcription of src/collider.h, "to be bound"):    *)
(*   CreateRadixTree  : PrefixLength (with the index tie-break for equal   *)
(*                      Morton codes), RangeEnd (exponential growth from   *)
(*                      kInitialLength, binary search), FindSplit          *)
(*   BuildInternalBoxes: one thread per leaf walking to the root, atomic   *)
(*                      arrival counters, the SECOND arriver writes the    *)
(*                      node's box (all interleavings; mode "build")       *)
(*   FindCollision    : the stack traversal, Box::DoesOverlap(Box/vec3),   *)
(*                      Box::Transform applied to EVERY node box           *)
(* Denotational part (the property): a (query, leaf) pair is reported iff  *)
(* the closed intervals of query and leaf box share a point in x, y and z  *)
(* (points: x and y only - the documented XY projection), each pair once,  *)
(* minus the leaf itself for self-collision; after Transform the same for  *)
(* the image boxes, after UpdateBoxes for the new boxes.                   *)
(* "All query boxes/points" includes UNBOUNDED ones: bounds -Infinity and   *)
(* +Infinity are the sentinels NegInf/PosInf, strictly outside every finite *)
(* coordinate of a case; whole space, half spaces, slabs, the empty default *)
(* Box() (min=+inf, max=-inf: reports nothing) - section "unbounded".       *)
(*                                                                         *)
(* Modes (selected by INIT/NEXT/INVARIANT in the .cfg files):              *)
(*   tree  : all sorted Morton multisets, TreeOK for several kInitialLength*)
(*   build : all trees the construction can produce x all interleavings    *)
(*   trav  : all such trees x ALL assignments of 1-D lattice intervals     *)
(*           (incl. degenerate and identical ones) x all queries           *)
(*   gen   : cases for the driver (drive/collide.cpp), expected sets       *)
(*           computed by the brute-force definition                        *)
(*   big   : >128 leaves with heavily duplicated codes (kInitialLength     *)
(*           growth), formula-generated                                    *)
(*   gen2d : rectangles / points for the 2-D edge-pair broad phase and the *)
(*           polygon k-d tree, expected by brute force                     *)
(***************************************************************************)
EXTENDS Integers, Sequences, FiniteSets, TLC, Json, Bitwise

CONSTANTS NS,        \* set of leaf counts (tree/build/trav/gen) or sizes (big/gen2d)
          CodeMax,   \* Morton codes 0..CodeMax
          KInits,    \* set of kInitialLength values (tree mode)
          Variants,  \* set of box-assignment variants per multiset (gen)
          Level,     \* 1: plain queries only, 2: also after Transform / UpdateBoxes (trav, gen invariants)
          Emit       \* print cases

kLengthMultiple == 4
kRoot == 1

Mod(a, b) == a % b
Min2(a, b) == IF a <= b THEN a ELSE b
Max2(a, b) == IF a >= b THEN a ELSE b
SetMin(S) == CHOOSE x \in S : \A y \in S : x <= y
SetMax(S) == CHOOSE x \in S : \A y \in S : x >= y
Range(s) == { s[i] : i \in DOMAIN s }
Iota(a, b) == [k \in 1..(b - a + 1) |-> a + k - 1]

(* ======================= CreateRadixTree ================================ *)
RECURSIVE BitLen(_)
BitLen(x) == IF x = 0 THEN 0 ELSE 1 + BitLen(x \div 2)
Clz32(x) == 32 - BitLen(x)                 \* __builtin_clz (x > 0)
(* __builtin_clz(a ^ b) = 32 - (number of shifts until a and b agree); the   *)
(* ASSUME ties this fast form to the literal one (Bitwise!^^ is slow in TLC)  *)
RECURSIVE XorLen(_, _)
XorLen(a, b) == IF a = b THEN 0 ELSE 1 + XorLen(a \div 2, b \div 2)
ClzXor(a, b) == 32 - XorLen(a, b)
ASSUME \A a \in 0..17, b \in 0..17 : a # b => ClzXor(a, b) = Clz32(a ^^ b)
ASSUME ClzXor(1000000, 999999) = Clz32(1000000 ^^ 999999) /\ ClzXor(5, 1073741823) = 2

(* leaf indices are 0-based as in the code; m is a sequence *)
M(m, i) == m[i + 1]

(* int PrefixLength(int i, int j) *)
Prefix(m, i, j) ==
  IF j < 0 \/ j >= Len(m) THEN -1
  ELSE IF ~Assert(i # j, "clz(0) is undefined") THEN -2
  ELSE IF M(m, i) = M(m, j) THEN 32 + ClzXor(i, j)     \* use index to disambiguate
  ELSE ClzXor(M(m, i), M(m, j))

Sign(x) == IF x > 0 THEN 1 ELSE IF x < 0 THEN -1 ELSE 0

RECURSIVE Grow(_, _, _, _, _)
Grow(m, i, dir, cp, len) ==          \* while (PrefixLength(i, i + dir*max_length) > commonPrefix) max_length *= 4
  IF Prefix(m, i, i + dir * len) > cp THEN Grow(m, i, dir, cp, len * kLengthMultiple) ELSE len

RECURSIVE Search(_, _, _, _, _, _)
Search(m, i, dir, cp, length, step) ==   \* for (step = max_length/2; step > 0; step /= 2)
  IF step <= 0 THEN length
  ELSE Search(m, i, dir, cp,
              IF Prefix(m, i, i + dir * (length + step)) > cp THEN length + step ELSE length,
              step \div 2)

RangeEnd(m, i, k0) ==
  LET dir == Sign(Prefix(m, i, i + 1) - Prefix(m, i, i - 1))
      cp == Prefix(m, i, i - dir)
      maxLength == Grow(m, i, dir, cp, k0)
  IN i + dir * Search(m, i, dir, cp, 0, maxLength \div 2)

RECURSIVE SplitLoop(_, _, _, _, _, _)
SplitLoop(m, first, last, cp, split, step) ==     \* do { ... } while (step > 1)
  LET st == (step + 1) \div 2                      \* divide by 2, rounding up
      ns == split + st
      s2 == IF ns < last /\ Prefix(m, first, ns) > cp THEN ns ELSE split
  IN IF st > 1 THEN SplitLoop(m, first, last, cp, s2, st) ELSE s2

FindSplit(m, first, last) == SplitLoop(m, first, last, Prefix(m, first, last), first, last - first)

Leaf2Node(l) == 2 * l
Internal2Node(i) == 2 * i + 1
Node2Internal(nd) == (nd - 1) \div 2
Node2Leaf(nd) == nd \div 2
IsLeafN(nd) == Mod(nd, 2) = 0
IsInternalN(nd) == Mod(nd, 2) = 1

RadixNode(m, internal, k0) ==
  LET e == RangeEnd(m, internal, k0)
      first == Min2(internal, e)
      last == Max2(internal, e)
      split == FindSplit(m, first, last)
  IN [c1 |-> IF split = first THEN Leaf2Node(split) ELSE Internal2Node(split),
      c2 |-> IF split + 1 = last THEN Leaf2Node(split + 1) ELSE Internal2Node(split + 1),
      first |-> first, last |-> last]

(* the tree: sequence indexed by internal+1 *)
RadixTreeOf(m, k0) == [k \in 1..(Len(m) - 1) |-> RadixNode(m, k - 1, k0)]

(* ----------------------- what a correct tree is -------------------------- *)
NumLeaves(t) == Len(t) + 1
Kids(t, nd) == LET r == t[Node2Internal(nd) + 1] IN <<r.c1, r.c2>>
ValidNode(t, nd) == nd >= 0 /\ nd <= 2 * Len(t)

RECURSIVE LeafSeq(_, _, _)
LeafSeq(t, nd, fuel) ==
  IF fuel = 0 \/ ~ValidNode(t, nd) THEN <<-1>>
  ELSE IF IsLeafN(nd) THEN <<Node2Leaf(nd)>>
  ELSE LeafSeq(t, Kids(t, nd)[1], fuel - 1) \o LeafSeq(t, Kids(t, nd)[2], fuel - 1)

RECURSIVE Depth(_, _, _)
Depth(t, nd, fuel) ==
  IF fuel = 0 \/ ~ValidNode(t, nd) THEN 1000
  ELSE IF IsLeafN(nd) THEN 0
  ELSE 1 + Max2(Depth(t, Kids(t, nd)[1], fuel - 1), Depth(t, Kids(t, nd)[2], fuel - 1))

TreeOK(t) ==
  LET n == NumLeaves(t) IN
  /\ \A k \in 1..(n - 1) : ValidNode(t, t[k].c1) /\ ValidNode(t, t[k].c2) /\ t[k].c1 # t[k].c2
  \* full binary tree: every node but the root is the child of exactly one internal node
  /\ \A nd \in 0..(2 * n - 2) :
       Cardinality({k \in 1..(n - 1) : t[k].c1 = nd \/ t[k].c2 = nd}) = (IF nd = kRoot THEN 0 ELSE 1)
  \* every leaf is reachable from the root exactly once (and in order)
  /\ LeafSeq(t, kRoot, n) = Iota(0, n - 1)
  \* every internal node covers a contiguous leaf range which its children partition
  /\ \A k \in 1..(n - 1) :
       LET s == LeafSeq(t, Internal2Node(k - 1), n)
           a == LeafSeq(t, t[k].c1, n)
           b == LeafSeq(t, t[k].c2, n)
       IN /\ s[1] >= 0 /\ s = Iota(s[1], s[Len(s)])
          /\ a = Iota(s[1], a[Len(a)]) /\ b = Iota(a[Len(a)] + 1, s[Len(s)])
          /\ t[k].first = s[1] /\ t[k].last = s[Len(s)]
          /\ (k - 1) \in {s[1], s[Len(s)]}
  \* the traversal stack (64 entries) cannot overflow
  /\ Depth(t, kRoot, n) <= 62

(* ----------------------- enumeration of Morton multisets ------------------ *)
RECURSIVE SortedSeqs(_, _)
SortedSeqs(n, lo) == IF n = 0 THEN {<<>>}
                     ELSE UNION { { <<c>> \o s : s \in SortedSeqs(n - 1, c) } : c \in lo..CodeMax }
Multisets(dummy) == UNION { SortedSeqs(n, 0) : n \in NS }
Shape(t) == [k \in 1..Len(t) |-> <<t[k].c1, t[k].c2>>]
TreesOf(dummy) == { RadixTreeOf(m, 128) : m \in Multisets(0) }

(* ======================= boxes, overlap, transform ======================= *)
(* a box is <<x0,y0,z0,x1,y1,z1>>, a point <<x,y,z>> *)
BUnion(a, b) == <<Min2(a[1], b[1]), Min2(a[2], b[2]), Min2(a[3], b[3]),
                  Max2(a[4], b[4]), Max2(a[5], b[5]), Max2(a[6], b[6])>>
(* transcription of Box::DoesOverlap(const Box&) and DoesOverlap(vec3) *)
Ov(b, q) == b[1] <= q[4] /\ b[2] <= q[5] /\ b[3] <= q[6] /\ b[4] >= q[1] /\ b[5] >= q[2] /\ b[6] >= q[3]
OvP(b, p) == p[1] <= b[4] /\ p[1] >= b[1] /\ p[2] <= b[5] /\ p[2] >= b[2]

(* THE PROPERTY's test, from its words: closed intervals overlap iff they    *)
(* share a point (integer end points: iff they share an integer point)       *)
Meets(a0, a1, b0, b1) == \E x \in a0..a1 : x \in b0..b1
(* (sharing a point is symmetric: the bound variable ranges over the LEAF's      *)
(* interval, which is always finite and short, the query's may be unbounded)     *)
Overlap(q, b) == Meets(b[1], b[4], q[1], q[4]) /\ Meets(b[2], b[5], q[2], q[5]) /\ Meets(b[3], b[6], q[3], q[6])
OverlapP(p, b) == p[1] \in b[1]..b[4] /\ p[2] \in b[2]..b[5]       \* projected in z

(* axis-aligned transform: three rows <<source axis, scale, translation>>    *)
(* transcription of Box::Transform: transform min and max, then re-sort      *)
XfPoint(p, T) == [r \in 1..3 |-> T[r][2] * p[T[r][1]] + T[r][3]]
XfB(b, T) == LET lo == XfPoint(<<b[1], b[2], b[3]>>, T)
                 hi == XfPoint(<<b[4], b[5], b[6]>>, T)
             IN <<Min2(lo[1], hi[1]), Min2(lo[2], hi[2]), Min2(lo[3], hi[3]),
                  Max2(lo[1], hi[1]), Max2(lo[2], hi[2]), Max2(lo[3], hi[3])>>
(* the new box by definition: the image of the box under the map *)
ImgIv(b, row) == LET vals == { row[2] * x + row[3] : x \in b[row[1]]..b[row[1] + 3] }
                 IN <<SetMin(vals), SetMax(vals)>>
ImageBox(b, T) == LET ix == ImgIv(b, T[1]) iy == ImgIv(b, T[2]) iz == ImgIv(b, T[3])
                  IN <<ix[1], iy[1], iz[1], ix[2], iy[2], iz[2]>>

(* ======================= BuildInternalBoxes (functional result) ========== *)
RECURSIVE NodeBox(_, _, _)
NodeBox(t, lb, nd) == IF IsLeafN(nd) THEN lb[Node2Leaf(nd) + 1]
                      ELSE BUnion(NodeBox(t, lb, Kids(t, nd)[1]), NodeBox(t, lb, Kids(t, nd)[2]))
(* bottom-up by decreasing fuel would need the depth; TLCEval makes the table explicit *)
NodeBoxes(t, lb) == TLCEval([nd \in 0..(2 * Len(t)) |-> NodeBox(t, lb, nd)])

(* ======================= FindCollision =================================== *)
(* hit[nd] = nodeBBox_[nd].DoesOverlap(query); returns the recorded leaves   *)
(* in order and the deepest stack use                                        *)
RECURSIVE Walk(_, _, _, _, _, _, _, _)
Walk(t, hit, self, qi, node, stack, out, deep) ==
  LET c1 == Kids(t, node)[1]
      c2 == Kids(t, node)[2]
      Rec(o, c) == IF hit[c] /\ IsLeafN(c) /\ (~self \/ Node2Leaf(c) # qi) THEN Append(o, Node2Leaf(c)) ELSE o
      o2 == Rec(Rec(out, c1), c2)
      t1 == hit[c1] /\ IsInternalN(c1)
      t2 == hit[c2] /\ IsInternalN(c2)
  IN IF ~t1 /\ ~t2
     THEN IF stack = <<>> THEN [out |-> o2, deep |-> deep]
          ELSE Walk(t, hit, self, qi, stack[Len(stack)], SubSeq(stack, 1, Len(stack) - 1), o2, deep)
     ELSE LET st == IF t1 /\ t2 THEN Append(stack, c2) ELSE stack
          IN Walk(t, hit, self, qi, IF t1 THEN c1 ELSE c2, st, o2, Max2(deep, Len(st)))

(* "early exit for empty boxes": if (query.min.x == +infinity) return; - 99 is   *)
(* PosInf of the section "unbounded" (ASSUMEd there)                             *)
TravBox(t, nbx, q, self, qi) ==
  IF q[1] = 99 THEN [out |-> <<>>, deep |-> 0]
  ELSE Walk(t, TLCEval([nd \in 0..(2 * Len(t)) |-> Ov(nbx[nd], q)]), self, qi, kRoot, <<>>, <<>>, 0)
TravPt(t, nbx, p) ==
  Walk(t, TLCEval([nd \in 0..(2 * Len(t)) |-> OvP(nbx[nd], p)]), FALSE, 0, kRoot, <<>>, <<>>, 0)

Want(lb, q) == { l \in 0..(Len(lb) - 1) : Overlap(q, lb[l + 1]) }
WantP(lb, p) == { l \in 0..(Len(lb) - 1) : OverlapP(p, lb[l + 1]) }
WantSelf(lb, l) == Want(lb, lb[l + 1]) \ {l}
Exact(r, W) == Cardinality(Range(r.out)) = Len(r.out) /\ Range(r.out) = W /\ r.deep <= 64

(* the traversal over a tree whose boxes were built from lb reports exactly   *)
(* the overlapping leaves, each once                                          *)
QueriesOK(t, lb, qs, ps) ==
  LET nbx == NodeBoxes(t, lb) IN
  /\ \A k \in DOMAIN qs : Exact(TravBox(t, nbx, qs[k], FALSE, 0), Want(lb, qs[k]))
  /\ \A k \in DOMAIN ps : Exact(TravPt(t, nbx, ps[k]), WantP(lb, ps[k]))
  /\ \A l \in 0..(Len(lb) - 1) : Exact(TravBox(t, nbx, lb[l + 1], TRUE, l), WantSelf(lb, l))
(* ... and after Collider::Transform (EVERY node box transformed in place)    *)
XfQueriesOK(t, lb, qs, ps, T) ==
  LET nbx == NodeBoxes(t, lb)
      nbT == TLCEval([nd \in DOMAIN nbx |-> XfB(nbx[nd], T)])
      lbT == TLCEval([l \in DOMAIN lb |-> ImageBox(lb[l], T)])
  IN /\ \A k \in DOMAIN qs : Exact(TravBox(t, nbT, qs[k], FALSE, 0), Want(lbT, qs[k]))
     /\ \A k \in DOMAIN ps : Exact(TravPt(t, nbT, ps[k]), WantP(lbT, ps[k]))
     /\ \A l \in 0..(Len(lb) - 1) : Exact(TravBox(t, nbT, lbT[l + 1], TRUE, l), WantSelf(lbT, l))

(* ======================= lattice box families ============================ *)
Iv2 == << <<0,0>>, <<0,1>>, <<0,2>>, <<1,1>>, <<1,2>>, <<2,2>> >>      \* intervals on 0..2
Iv1 == << <<0,0>>, <<0,1>>, <<1,1>> >>                                  \* intervals on 0..1
MkBox(ix, iy, iz) == <<ix[1], iy[1], iz[1], ix[2], iy[2], iz[2]>>
L1Box(axis, k) == CASE axis = 0 -> MkBox(Iv2[k + 1], <<0,0>>, <<0,0>>)
                    [] axis = 1 -> MkBox(<<0,0>>, Iv2[k + 1], <<0,0>>)
                    [] axis = 2 -> MkBox(<<0,0>>, <<0,0>>, Iv2[k + 1])
L3Box(k) == MkBox(Iv1[Mod(k, 3) + 1], Iv1[Mod(k \div 3, 3) + 1], Iv1[Mod(k \div 9, 3) + 1])       \* k in 0..26
L2Box(k) == MkBox(Iv2[Mod(k, 6) + 1], Iv2[Mod(k \div 6, 6) + 1], <<0,0>>)                        \* k in 0..35
FamSize(f) == CASE f \in {"L1x", "L1y", "L1z"} -> 6 [] f = "L3" -> 27 [] f = "L2" -> 36
FamBox(f, k) == CASE f = "L1x" -> L1Box(0, k) [] f = "L1y" -> L1Box(1, k) [] f = "L1z" -> L1Box(2, k)
                  [] f = "L3" -> L3Box(k) [] f = "L2" -> L2Box(k)
FarBox == <<5,5,5,6,6,6>>
AllBox == <<-1,-1,-1,3,3,3>>
(* L1: all six intervals; L3/L2: six of the family chosen by h; always the far and the all-covering box *)
FamQueries(f, h) == [k \in 1..8 |->
                    IF k = 7 THEN FarBox ELSE IF k = 8 THEN AllBox
                    ELSE IF FamSize(f) = 6 THEN FamBox(f, k - 1) ELSE FamBox(f, Mod(h + 5 * k, FamSize(f)))]
LatPoints == [k \in 1..9 |-> LET x == Mod(k - 1, 3)  y == (k - 1) \div 3
                             IN <<x, y, IF Mod(x + y, 2) = 0 THEN 9 ELSE 0>>]

XF == << << <<1, 1, 1>>,  <<2, 1, -2>>, <<3, 1, 3>> >>,       \* translation
         << <<1, -1, 0>>, <<2, 1, 0>>,  <<3, 1, 0>> >>,       \* mirror x
         << <<2, -1, 0>>, <<1, 1, 0>>,  <<3, 1, 0>> >>,       \* rotate 90 about z
         << <<1, 2, 1>>,  <<2, 3, 0>>,  <<3, 1, -1>> >>,      \* scale + translation
         << <<2, -2, 1>>, <<3, 1, 0>>,  <<1, -1, 2>> >>,      \* cyclic permutation, negative scales
         << <<1, 1, 0>>,  <<3, -1, 0>>, <<2, 1, 0>> >>,       \* rotate 90 about x
         << <<1, -1, 2>>, <<2, -1, 2>>, <<3, -1, 2>> >>,      \* point reflection through (1,1,1)
         << <<2, 1, 0>>,  <<1, 1, 0>>,  <<3, 1, 0>> >> >>     \* swap x and y (mirror)

(* ======================= unbounded query boxes / points ================== *)
(* -Infinity and +Infinity are modelled by two sentinels that lie strictly    *)
(* outside every finite coordinate of a case (CaseFinite, checked by TLC on   *)
(* every generated case).  Whether closed intervals share a point depends     *)
(* only on the order of their end points, and the sentinels are ordered        *)
(* against the finite lattice exactly as the infinities are against the reals, *)
(* so Meets / Overlap / OverlapP above ARE the property's test for them:       *)
(* [NegInf, c] is the half-line up to c, [NegInf, PosInf] the whole line,       *)
(* [PosInf, NegInf] (the default Box()) contains no point at all.  The printed  *)
(* cases carry the tokens "-Infinity" / "Infinity", which the driver maps to    *)
(* the IEEE infinities.                                                         *)
PosInf == 99
NegInf == -99
IsFin(v) == NegInf < v /\ v < PosInf
SeqFinite(b) == \A k \in DOMAIN b : IsFin(b[k])
Tok(v) == IF v = PosInf THEN "Infinity" ELSE IF v = NegInf THEN "-Infinity" ELSE v
TokSeq(b) == [k \in DOMAIN b |-> Tok(b[k])]
TokSeqs(bs) == [k \in DOMAIN bs |-> TokSeq(bs[k])]
(* one axis of a query box.  kinds 0..3 contain points: 0 the whole line,      *)
(* 1 the half-line up to c, 2 the half-line from c, 3 the finite [c, d];         *)
(* kinds 4..6 contain no finite point: 4 the EMPTY interval of the default      *)
(* Box() (min = +inf, max = -inf), 5 / 6 the degenerate interval at -inf / +inf  *)
AxIv(kind, c, d) == CASE kind = 0 -> <<NegInf, PosInf>>
                      [] kind = 1 -> <<NegInf, c>>
                      [] kind = 2 -> <<c, PosInf>>
                      [] kind = 3 -> <<c, d>>
                      [] kind = 4 -> <<PosInf, NegInf>>
                      [] kind = 5 -> <<NegInf, NegInf>>
                      [] kind = 6 -> <<PosInf, PosInf>>
UBox(kx, ky, kz, c) == MkBox(AxIv(kx, c[1], c[1] + c[4]), AxIv(ky, c[2], c[2] + c[4]), AxIv(kz, c[3], c[3] + c[4]))
WholeSpace == UBox(0, 0, 0, <<0, 0, 0, 0>>)
EmptyBox == UBox(4, 4, 4, <<0, 0, 0, 0>>)             \* Box(): min = +inf, max = -inf on every axis
(* a "live" unbounded box: every axis of kind 0..3, e in 1..62 = all combinations *)
(* but the whole space (0) and the finite box (63); finite bounds from            *)
(* lo..lo+span-1 chosen by g                                                      *)
LiveBox(e, g, lo, span) ==
  UBox(Mod(e, 4), Mod(e \div 4, 4), e \div 16,
       <<lo + Mod(g, span), lo + Mod(g \div 5, span), lo + Mod(g \div 25, span), Mod(g \div 125, 2)>>)
(* a "dead" one: a live box with one axis replaced by a kind-4/5/6 interval      *)
DeadBox(e, g, lo, span) ==
  LET b == LiveBox(e, g, lo, span)
      ax == Mod(g \div 7, 3) + 1
      iv == AxIv(4 + Mod(g \div 3, 3), 0, 0)
  IN [k \in 1..6 |-> IF k = ax THEN iv[1] ELSE IF k = ax + 3 THEN iv[2] ELSE b[k]]
(* eight unbounded query boxes per case: whole space, the empty default box, four *)
(* live and two dead ones, pseudo-randomly but reproducibly chosen by h           *)
UQueries(h, lo, span) == [j \in 1..8 |->
     LET g == Mod(h * 13 + j * 7919 + j * j * 31, 100003) IN
     IF j = 1 THEN WholeSpace ELSE IF j = 2 THEN EmptyBox
     ELSE IF j <= 6 THEN LiveBox(1 + Mod(g, 62), g \div 62, lo, span)
     ELSE DeadBox(Mod(g, 63), g \div 63, lo, span)]
(* points: z is projected away, so an infinite z changes nothing; an infinite x  *)
(* or y lies in no finite interval                                               *)
UPoints(h) == LET x == Mod(h, 3)  y == Mod(h \div 3, 3)
              IN << <<x, y, IF Mod(h, 2) = 0 THEN PosInf ELSE NegInf>>, <<NegInf, y, 0>>, <<x, PosInf, PosInf>> >>
UHasInf(b) == \E k \in DOMAIN b : ~IsFin(b[k])
(* sanity of the family and of the oracle on it *)
ASSUME /\ PosInf = 99 /\ NegInf = -PosInf
       /\ \A e \in 0..62, g \in {0, 1, 7, 33, 124, 999} : UHasInf(LiveBox(e, g, 0, 3)) /\ UHasInf(DeadBox(e, g, -1, 5))
       /\ \A e \in 0..62 : Overlap(LiveBox(e, 0, 0, 3), <<0,0,0,0,0,0>>) /\ ~Overlap(DeadBox(e, 5, 0, 3), <<0,0,0,2,2,2>>)
       /\ Overlap(WholeSpace, <<0,0,0,0,0,0>>) /\ ~Overlap(EmptyBox, <<0,0,0,2,2,2>>)
       /\ Overlap(<<NegInf, 1, 0, 0, PosInf, 0>>, <<0,0,0,2,1,2>>) /\ ~Overlap(<<NegInf, 2, 0, 0, PosInf, 0>>, <<0,0,0,2,1,2>>)
       /\ ~Overlap(<<NegInf, NegInf, NegInf, PosInf, NegInf, PosInf>>, <<0,0,0,2,2,2>>)
       /\ OverlapP(<<1, 1, PosInf>>, <<0,0,0,2,2,2>>) /\ ~OverlapP(<<NegInf, 1, 0>>, <<0,0,0,2,2,2>>)

(* ======================= variables ======================================= *)
VARIABLES cs,      \* the case (tree / leaf boxes / ...)
          done,
          pc, at, cnt, bx, wr, rd       \* build mode: per-leaf threads of BuildInternalBoxes
vars == <<cs, done, pc, at, cnt, bx, wr, rd>>
NoThreads == pc = <<>> /\ at = <<>> /\ cnt = <<>> /\ bx = <<>> /\ wr = <<>> /\ rd = <<>>
(* Init only chooses the seed of a case (cheap, serial in TLC); the step expands  *)
(* it (in parallel over TLC's workers) and prints it; invariants look at done    *)
(* states                                                                        *)
Step(expand(_), json(_)) == /\ ~done /\ done' = TRUE /\ cs' = expand(cs)
                            /\ UNCHANGED <<pc, at, cnt, bx, wr, rd>>
                            /\ (Emit => PrintT(<<"BEH", ToJson(json(cs'))>>))
NoJson(c) == <<>>

(* ----------------------- mode tree --------------------------------------- *)
InitTree == cs \in { [m |-> m] : m \in Multisets(0) } /\ done = FALSE /\ NoThreads
ExpandTree(c) == [m |-> c.m, t |-> RadixTreeOf(c.m, 128)]
NextTree == Step(ExpandTree, NoJson)
TreeInv == done => TreeOK(cs.t)
(* the range/split search does not depend on where the exponential search starts *)
TreeSameForAllKInit == done => \A k0 \in KInits : RadixTreeOf(cs.m, k0) = cs.t

(* ----------------------- mode build -------------------------------------- *)
(* boxes are SETS OF LEAVES (the free semilattice: Union = set union), so the *)
(* result holds for every assignment of boxes; {-1} = not yet written/stale    *)
ParentOf(t, nd) == Internal2Node((CHOOSE k \in 1..Len(t) : t[k].c1 = nd \/ t[k].c2 = nd) - 1)
InitBuild ==
  /\ cs \in { [t |-> tr] : tr \in TreesOf(0) }
  /\ done = FALSE
  /\ LET n == NumLeaves(cs.t) IN
     /\ pc = [l \in 0..(n - 1) |-> "up"]
     /\ at = [l \in 0..(n - 1) |-> Leaf2Node(l)]
     /\ cnt = [k \in 0..(n - 2) |-> 0]
     /\ bx = [nd \in 0..(2 * n - 2) |-> IF IsLeafN(nd) THEN {Node2Leaf(nd)} ELSE {-1}]
     /\ wr = [k \in 0..(n - 2) |-> 0]
     /\ rd = [l \in 0..(n - 1) |-> {}]
Up(l) == /\ pc[l] = "up"                        \* node = nodeParent_[node]; AtomicAdd(counter_[internal], 1)
         /\ LET p == ParentOf(cs.t, at[l])
                k == Node2Internal(p)
            IN /\ at' = [at EXCEPT ![l] = p]
               /\ cnt' = [cnt EXCEPT ![k] = @ + 1]
               /\ pc' = [pc EXCEPT ![l] = IF cnt[k] = 0 THEN "done" ELSE "rd1"]   \* == 0: return
         /\ UNCHANGED <<cs, done, bx, wr, rd>>
Rd1(l) == /\ pc[l] = "rd1"
          /\ rd' = [rd EXCEPT ![l] = bx[Kids(cs.t, at[l])[1]]]
          /\ pc' = [pc EXCEPT ![l] = "rd2"]
          /\ UNCHANGED <<cs, done, at, cnt, bx, wr>>
Rd2(l) == /\ pc[l] = "rd2"
          /\ rd' = [rd EXCEPT ![l] = @ \cup bx[Kids(cs.t, at[l])[2]]]
          /\ pc' = [pc EXCEPT ![l] = "wr"]
          /\ UNCHANGED <<cs, done, at, cnt, bx, wr>>
Wr(l) == /\ pc[l] = "wr"
         /\ bx' = [bx EXCEPT ![at[l]] = rd[l]]
         /\ wr' = [wr EXCEPT ![Node2Internal(at[l])] = @ + 1]
         /\ pc' = [pc EXCEPT ![l] = IF at[l] = kRoot THEN "done" ELSE "up"]      \* while (node != kRoot)
         /\ UNCHANGED <<cs, done, at, cnt, rd>>
NextBuild == \E l \in DOMAIN pc : Up(l) \/ Rd1(l) \/ Rd2(l) \/ Wr(l)
BuildSafe == /\ \A k \in DOMAIN wr : wr[k] <= 1 /\ cnt[k] <= 2
             /\ \A l \in DOMAIN rd : pc[l] = "wr" => -1 \notin rd[l]          \* never reads an unwritten child
BuildFinal == (\A l \in DOMAIN pc : pc[l] = "done") =>
                 \A k \in DOMAIN wr : /\ wr[k] = 1 /\ cnt[k] = 2
                                      /\ bx[Internal2Node(k)] = Range(LeafSeq(cs.t, Internal2Node(k), NumLeaves(cs.t)))

(* ----------------------- mode trav --------------------------------------- *)
(* every tree the construction can produce x EVERY assignment of the six     *)
(* intervals on 0..2 (degenerate and identical ones included) x all queries  *)
InitTrav == cs \in { [t |-> tr] : tr \in TreesOf(0) } /\ done = FALSE /\ NoThreads
NextTrav == /\ ~done /\ done' = TRUE
            /\ \E b \in [1..NumLeaves(cs.t) -> { L1Box(0, k) : k \in 0..5 }] : cs' = [t |-> cs.t, lb |-> b]
            /\ UNCHANGED <<pc, at, cnt, bx, wr, rd>>
TravPoints == << <<0,0,9>>, <<1,0,0>>, <<2,0,9>>, <<1,1,0>>, <<1,0,PosInf>>, <<NegInf,0,0>> >>
(* unbounded queries for the 1-D family (boxes [a,b] x [0,0] x [0,0]): whole space, Box(), a half *)
(* line in x, an orthant, an orthant missing y = 0, dead in y only (not seen by the early exit)    *)
TravUnb == << WholeSpace, EmptyBox,
              <<NegInf, 0, 0, 1, 0, 0>>, <<1, NegInf, 0, PosInf, PosInf, PosInf>>,
              <<2, 1, NegInf, PosInf, PosInf, PosInf>>, <<NegInf, PosInf, NegInf, PosInf, NegInf, PosInf>> >>
TravQs == FamQueries("L1x", 0) \o TravUnb
(* Level 1: plain queries on every tree, mirrored (XF[2]) for <= 3 leaves;        *)
(* Level 2: mirrored and permuted/scaled (XF[5]) transforms for <= 4 leaves         *)
TravInv == done =>
           /\ QueriesOK(cs.t, cs.lb, TravQs, TravPoints)
           /\ (NumLeaves(cs.t) <= 3 \/ (Level >= 2 /\ NumLeaves(cs.t) <= 4)) =>
                  XfQueriesOK(cs.t, cs.lb, TravQs, TravPoints, XF[2])
           /\ (Level >= 2 /\ NumLeaves(cs.t) <= 4) =>
                  XfQueriesOK(cs.t, cs.lb, [k \in 1..8 |-> XfB(FamQueries("L1x", 0)[k], XF[5])] \o TravUnb,
                              [k \in 1..4 |-> XfPoint(TravPoints[k], XF[5])] \o SubSeq(TravPoints, 5, 6), XF[5])

(* ----------------------- mode gen ---------------------------------------- *)
RECURSIVE HashM(_, _)
HashM(m, k) == IF k > Len(m) THEN 7 ELSE Mod(HashM(m, k + 1) * 31 + m[k] * (k + 3) + 1, 100003)
VarFam(v, h) == CASE v = 0 -> "L3"
                  [] v = 1 -> <<"L1x", "L1y", "L1z">>[Mod(h, 3) + 1]
                  [] v = 2 -> "L3"
                  [] v = 3 -> "L2"
                  [] v = 4 -> <<"L1y", "L1z", "L1x">>[Mod(h, 3) + 1]
                  [] OTHER -> <<"L1x", "L1y", "L1z", "L3", "L2">>[Mod(h \div 3, 5) + 1]     \* family chosen by the multiset
Pick(f, m, v, i, salt) ==     \* pseudo-random but reproducible choice of a family box for leaf i
  LET h == HashM(m, 1) IN
  IF v = 0 THEN FamBox(f, IF Mod(h, 2) = 0 THEN Mod(h \div 2, 27) ELSE 13)     \* all leaves IDENTICAL (13 = [0,1]^3, else maybe degenerate)
  ELSE FamBox(f, Mod(h * 7 + i * i * 3 + i * (v + 1 + salt) + M(m, i) * 5 + v * 11 + salt * 17, FamSize(f)))
GenCase(m, v) ==
  LET h == HashM(m, 1)
      f == VarFam(v, h)
      n == Len(m)
      T == XF[Mod(h + v, 8) + 1]
      qs == FamQueries(f, h)
  IN [m |-> m, v |-> v, fam |-> f, t |-> RadixTreeOf(m, 128),
      lb |-> [l \in 1..n |-> Pick(f, m, v, l - 1, 0)],
      lb2 |-> [l \in 1..n |-> Pick(f, m, IF v = 0 THEN 2 ELSE v, l - 1, 1)],
      qs |-> qs, ps |-> LatPoints, T |-> T,
      qsT |-> [k \in 1..Len(qs) |-> XfB(qs[k], T)] \o SubSeq(qs, 1, 2),        \* the images of the queries + two untransformed
      psT |-> [k \in 1..9 |-> XfPoint(LatPoints[k], T)] \o SubSeq(LatPoints, 4, 5),
      \* unbounded queries (asked as they are in every phase): finite bounds on the lattice 0..2
      qu |-> UQueries(h + v, 0, 3), pu |-> UPoints(h + v)]
ExpandGen(c) == GenCase(c.m, c.v)
(* the queries of a case: the finite ones followed by the unbounded ones (printed with tokens) *)
AllQ(c) == c.qs \o c.qu
AllQT(c) == c.qsT \o c.qu
AllP(c) == c.ps \o c.pu
AllPT(c) == c.psT \o c.pu
(* the sentinels are outside every finite coordinate of the case *)
CaseFinite(c) ==
  /\ \A l \in DOMAIN c.lb : SeqFinite(c.lb[l]) /\ SeqFinite(c.lb2[l]) /\ SeqFinite(ImageBox(c.lb[l], c.T))
  /\ \A k \in DOMAIN c.qs : SeqFinite(c.qs[k])
  /\ \A k \in DOMAIN c.qsT : SeqFinite(c.qsT[k])
  /\ \A k \in DOMAIN c.ps : SeqFinite(c.ps[k])
  /\ \A k \in DOMAIN c.psT : SeqFinite(c.psT[k])
  /\ \A k \in DOMAIN c.qu : UHasInf(c.qu[k])
  /\ \A k \in DOMAIN c.pu : UHasInf(c.pu[k])
GenJson(c) ==
  LET lbT == [l \in DOMAIN c.lb |-> ImageBox(c.lb[l], c.T)]
      qs == AllQ(c)  qsT == AllQT(c)  ps == AllP(c)  psT == AllPT(c) IN
  [kind |-> "bvh3", n |-> Len(c.m), fam |-> c.fam, v |-> c.v, morton |-> c.m, boxes |-> c.lb,
   tree |-> Shape(c.t),
   nfinite |-> <<Len(c.qs), Len(c.ps), Len(c.qsT), Len(c.psT)>>,
   qboxes |-> TokSeqs(qs), qpoints |-> TokSeqs(ps),
   expBox |-> [k \in DOMAIN qs |-> Want(c.lb, qs[k])],
   expPoint |-> [k \in DOMAIN ps |-> WantP(c.lb, ps[k])],
   expSelf |-> [l \in DOMAIN c.lb |-> WantSelf(c.lb, l - 1)],
   xf |-> c.T, boxesT |-> lbT, qboxesT |-> TokSeqs(qsT), qpointsT |-> TokSeqs(psT),
   expBoxT |-> [k \in DOMAIN qsT |-> Want(lbT, qsT[k])],
   expPointT |-> [k \in DOMAIN psT |-> WantP(lbT, psT[k])],
   expSelfT |-> [l \in DOMAIN lbT |-> WantSelf(lbT, l - 1)],
   boxes2 |-> c.lb2,
   expBox2 |-> [k \in DOMAIN qs |-> Want(c.lb2, qs[k])],
   expPoint2 |-> [k \in DOMAIN ps |-> WantP(c.lb2, ps[k])],
   expSelf2 |-> [l \in DOMAIN c.lb2 |-> WantSelf(c.lb2, l - 1)]]
InitGen == cs \in { [m |-> m, v |-> v] : m \in Multisets(0), v \in Variants } /\ done = FALSE /\ NoThreads
NextGen == Step(ExpandGen, GenJson)
GenInv == done =>
          /\ TreeOK(cs.t)
          /\ CaseFinite(cs)
          /\ Level >= 2 => /\ QueriesOK(cs.t, cs.lb, AllQ(cs), AllP(cs))
                           /\ QueriesOK(cs.t, cs.lb2, AllQ(cs), AllP(cs))
                           /\ XfQueriesOK(cs.t, cs.lb, AllQT(cs), AllPT(cs), cs.T)

(* ----------------------- mode big ---------------------------------------- *)
(* > kInitialLength leaves; codes (i*A) div B are sorted with long runs of    *)
(* duplicates; boxes on the lattice 0..3 (+ size 0..2)                        *)
BigPatterns == << <<0, 1>>, <<1, 64>>, <<1, 150>>, <<1, 3>>, <<5, 1>>, <<1, 129>> >>
BigBoxAt(i, s) == LET x == Mod(i * 7 + i \div 5 + s, 4)  y == Mod(i * 3 + i \div 11 + 2 * s, 4)  z == Mod(i \div 3 + i * s, 4)
                      dx == Mod(i + s, 3)  dy == Mod(i \div 2, 3)  dz == Mod(i * 5 + s, 3)
                  IN <<x, y, z, x + dx, y + dy, z + dz>>
BigQueries == [k \in 1..12 |-> IF k = 12 THEN <<-1,-1,-1,9,9,9>> ELSE IF k = 11 THEN <<7,7,7,8,8,8>>
                               ELSE LET b == BigBoxAt(k * 13 + 1, k) IN <<b[1], b[2], b[3], b[1] + Mod(k, 2), b[2] + Mod(k, 3), b[3] + Mod(k \div 2, 2)>>]
BigPoints == [k \in 1..8 |-> <<Mod(k, 5), Mod(k * 3, 6), 9 - k>>]
BigCase(n, p) ==
  LET m == [l \in 1..n |-> ((l - 1) * BigPatterns[p][1]) \div BigPatterns[p][2]]
      T == XF[Mod(n + p, 8) + 1]
  IN [m |-> m, v |-> p, fam |-> "big", t |-> RadixTreeOf(m, 128),
      lb |-> [l \in 1..n |-> BigBoxAt(l - 1, p)],
      lb2 |-> [l \in 1..n |-> BigBoxAt(n - l, p + 1)],
      qs |-> BigQueries, ps |-> BigPoints, T |-> T,
      qsT |-> BigQueries \o [k \in 1..12 |-> XfB(BigQueries[k], T)],
      psT |-> BigPoints \o [k \in 1..8 |-> XfPoint(BigPoints[k], T)],
      qu |-> UQueries(n + p, 0, 6), pu |-> UPoints(n + p)]
ExpandBig(c) == BigCase(c.n, Mod(c.n + c.j, Len(BigPatterns)) + 1)
BigJson(c) ==
  LET lbT == [l \in DOMAIN c.lb |-> ImageBox(c.lb[l], c.T)]
      qs == AllQ(c)  qsT == AllQT(c)  ps == AllP(c)  psT == AllPT(c)
      self == Len(c.m) <= 160 IN
  [kind |-> "bvh3", n |-> Len(c.m), fam |-> c.fam, v |-> c.v, morton |-> c.m, boxes |-> c.lb,
   tree |-> Shape(c.t),
   nfinite |-> <<Len(c.qs), Len(c.ps), Len(c.qsT), Len(c.psT)>>,
   qboxes |-> TokSeqs(qs), qpoints |-> TokSeqs(ps),
   expBox |-> [k \in DOMAIN qs |-> Want(c.lb, qs[k])],
   expPoint |-> [k \in DOMAIN ps |-> WantP(c.lb, ps[k])],
   expSelf |-> IF self THEN [l \in DOMAIN c.lb |-> WantSelf(c.lb, l - 1)] ELSE <<>>,
   xf |-> c.T, boxesT |-> lbT, qboxesT |-> TokSeqs(qsT), qpointsT |-> TokSeqs(psT),
   expBoxT |-> [k \in DOMAIN qsT |-> Want(lbT, qsT[k])],
   expPointT |-> [k \in DOMAIN psT |-> WantP(lbT, psT[k])],
   expSelfT |-> <<>>,
   boxes2 |-> c.lb2,
   expBox2 |-> [k \in DOMAIN qs |-> Want(c.lb2, qs[k])],
   expPoint2 |-> [k \in DOMAIN ps |-> WantP(c.lb2, ps[k])],
   expSelf2 |-> <<>>]
InitBig == cs \in { [n |-> n, j |-> j] : n \in NS, j \in Variants } /\ done = FALSE /\ NoThreads
NextBig == Step(ExpandBig, BigJson)
BigInv == done => LET nbx == NodeBoxes(cs.t, cs.lb) IN
          /\ TreeOK(cs.t)
          /\ CaseFinite(cs)
          /\ \A k \in DOMAIN AllQ(cs) : Exact(TravBox(cs.t, nbx, AllQ(cs)[k], FALSE, 0), Want(cs.lb, AllQ(cs)[k]))
          /\ \A k \in DOMAIN AllP(cs) : Exact(TravPt(cs.t, nbx, AllP(cs)[k]), WantP(cs.lb, AllP(cs)[k]))

(* ----------------------- mode gen2d -------------------------------------- *)
(* rectangles <<x0,y0,x1,y1>>; the edge-pair broad phase must return exactly  *)
(* the pairs i<j of rectangles that overlap (closed), the k-d tree exactly the *)
(* points inside the closed query rectangle                                   *)
ROverlap(a, b) == Meets(a[1], a[3], b[1], b[3]) /\ Meets(a[2], a[4], b[2], b[4])
RContains(r, p) == p[1] \in r[1]..r[3] /\ p[2] \in r[2]..r[4]
Rect2(k) == LET ix == Iv2[Mod(k, 6) + 1] iy == Iv2[Mod(k \div 6, 6) + 1] IN <<ix[1], iy[1], ix[2], iy[2]>>     \* 0..35
Rect1(k) == LET ix == Iv1[Mod(k, 3) + 1] iy == Iv1[Mod(k \div 3, 3) + 1] IN <<ix[1], iy[1], ix[2], iy[2]>>     \* 0..8
RectSets(n) == CASE n = 2 -> [1..2 -> { Rect2(k) : k \in 0..35 }]
                 [] n \in {3, 4} -> [1..n -> { Rect1(k) : k \in 0..8 }]
                 [] OTHER -> { [i \in 1..n |-> LET x == Mod(i * a + (i * i) \div 3 + b, 5)  y == Mod(i * b + i \div 2 + a, 5)
                                               IN <<x, y, x + Mod(i * a, 3), y + Mod(i + b, 2)>>] : a \in 1..4, b \in 0..4 }
RectJson(rs) == [kind |-> "rects", n |-> Len(rs), rects |-> rs,
                 pairs |-> { <<p[1] - 1, p[2] - 1>> :
                             p \in { q \in (DOMAIN rs) \X (DOMAIN rs) : q[1] < q[2] /\ ROverlap(rs[q[1]], rs[q[2]]) } }]
Iv3 == << <<0,0>>, <<0,1>>, <<0,2>>, <<0,3>>, <<1,1>>, <<1,2>>, <<1,3>>, <<2,2>>, <<2,3>>, <<3,3>> >>
QRects == [k \in 1..102 |-> IF k = 101 THEN <<-1,-1,4,4>> ELSE IF k = 102 THEN <<5,5,6,6>>
                            ELSE LET ix == Iv3[Mod(k - 1, 10) + 1] iy == Iv3[(k - 1) \div 10 + 1] IN <<ix[1], iy[1], ix[2], iy[2]>>]
PointSets(n) == { [i \in 1..n |-> <<Mod(i * a + (i * i) \div c + b, 4), Mod(i * b + i \div 2 + a * c, 4)>>] :
                  a \in 1..3, b \in 0..3, c \in {2, 5} }
(* unbounded query rectangles: whole plane, the empty default Rect(), half planes, quadrants, a   *)
(* strip, dead in y only / at +inf in x                                                           *)
QRectsU == << <<NegInf, NegInf, PosInf, PosInf>>, <<PosInf, PosInf, NegInf, NegInf>>,
              <<NegInf, NegInf, 1, PosInf>>, <<2, NegInf, PosInf, PosInf>>, <<NegInf, 1, PosInf, PosInf>>,
              <<NegInf, NegInf, PosInf, 0>>, <<1, 1, PosInf, PosInf>>, <<NegInf, 2, 2, PosInf>>,
              <<NegInf, 1, PosInf, 2>>, <<3, NegInf, 3, PosInf>>,
              <<NegInf, PosInf, PosInf, NegInf>>, <<PosInf, 0, PosInf, 3>>, <<NegInf, 0, NegInf, 3>> >>
QRectsAll == QRects \o QRectsU
PointJson(ps) == [kind |-> "points", n |-> Len(ps), points |-> ps, queries |-> TokSeqs(QRectsAll), nfinite |-> Len(QRects),
                  exp |-> [k \in DOMAIN QRectsAll |-> { i - 1 : i \in { j \in DOMAIN ps : RContains(QRectsAll[k], ps[j]) } }]]
Cases2D(dummy) == UNION { { [kind |-> "rects", d |-> rs] : rs \in RectSets(n) } : n \in NS \cap 2..50 }
                  \cup UNION { { [kind |-> "points", d |-> ps] : ps \in PointSets(n - 100) } : n \in NS \cap 100..400 }
Json2D(c) == IF c.kind = "rects" THEN RectJson(c.d) ELSE PointJson(c.d)
Init2D == cs \in Cases2D(0) /\ done = FALSE /\ NoThreads
Same(c) == c
Next2D == Step(Same, Json2D)
(* sanity of the oracle itself: overlap is symmetric and reflexive, a rectangle *)
(* contains its corners                                                         *)
Inv2D == done => IF cs.kind = "rects"
         THEN \A i \in DOMAIN cs.d, j \in DOMAIN cs.d : ROverlap(cs.d[i], cs.d[j]) = ROverlap(cs.d[j], cs.d[i]) /\ ROverlap(cs.d[i], cs.d[i])
         ELSE /\ \A k \in DOMAIN QRects : RContains(QRects[k], <<QRects[k][1], QRects[k][2]>>) /\ SeqFinite(QRects[k])
              /\ \A j \in DOMAIN cs.d : SeqFinite(cs.d[j]) /\ RContains(QRectsU[1], cs.d[j]) /\ ~RContains(QRectsU[2], cs.d[j])
              /\ \A k \in DOMAIN QRectsU : UHasInf(QRectsU[k])
=============================================================================
