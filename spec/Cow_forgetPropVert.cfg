CONSTANTS NObj = 3
  NBuf = 9
  Unique = "forgetPropVert"
  MaxWrites = 2
INIT Init
NEXT Next
INVARIANT NoWriteWhileShared
INVARIANT ValueStable
CHECK_DEADLOCK FALSE
