CONSTANTS
 NS = {2,3,4}
 CodeMax = 7
 KInits = {128}
 Variants = {0}
 Level = 1
 Emit = FALSE
INIT InitTrav
NEXT NextTrav
INVARIANT TravInv
CHECK_DEADLOCK FALSE
