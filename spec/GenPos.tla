------------------------------- MODULE GenPos -------------------------------
(***************************************************************************)
(* C02/C03/C17 in GENERAL POSITION (the sample-point regime of DESIGN 3):   *)
(* the denotation of a Boolean at a point p is the set formula on           *)
(* "p inside A" and "p inside B".  TLC enumerates the shape classes         *)
(* (primitive x primitive x operation x relative pose) and the truth table; *)
(* the driver instantiates each class with seeded generic float parameters  *)
(* (irrational rotations, non-uniform scales), classifies seeded sample     *)
(* points of A, B and the result with the independent winding oracle, masks *)
(* points closer than the result's tolerance to an input surface exactly as *)
(* the property does, and checks the formula, inclusion-exclusion of the    *)
(* volumes, commutativity, Split = (A^B, A-B) and the plane splits.         *)
(***************************************************************************)
EXTENDS Integers, Sequences, TLC, Json
Prims == {"cube", "sphere", "tet", "cyl", "lshape"}
OpsG == {"Add", "Subtract", "Intersect"}
Poses == {"overlap", "nested", "disjoint", "shifted", "rotated"}
Inside(op, a, b) == CASE op = "Add" -> a \/ b [] op = "Subtract" -> a /\ ~b [] op = "Intersect" -> a /\ b
Truth(op) == [ab \in BOOLEAN \X BOOLEAN |-> Inside(op, ab[1], ab[2])]
(* C17, Extrude with twist and top scale: the documented point map of layer alpha = z/height is  *)
(* "twist by alpha*twistDegrees, then scale by lerp(1, scaleTop, alpha)"; classes of arguments:    *)
Twists == {0, 30, 90, -45, 180}
Scales == { <<10, 10>>, <<5, 5>>, <<30, 10>>, <<5, 20>>, <<0, 0>>, <<20, 20>> }      \* tenths
ExtrudeCases == [k : {"extrude"}, twist : Twists, scale : Scales, shape : {"rect", "lshape", "offcentre"}]
CONSTANT FamilyG
VARIABLES c, done
Init == c \in (IF FamilyG = "bool" THEN [p : Prims, q : Prims, op : OpsG, pose : Poses] ELSE ExtrudeCases) /\ done = FALSE
Next == /\ ~done /\ done' = TRUE /\ UNCHANGED c
        /\ PrintT(<<"BEH", ToJson(IF FamilyG = "bool"
                                   THEN [p |-> c.p, q |-> c.q, op |-> c.op, pose |-> c.pose,
                                         tt |-> <<Inside(c.op, FALSE, FALSE), Inside(c.op, FALSE, TRUE), Inside(c.op, TRUE, FALSE), Inside(c.op, TRUE, TRUE)>>]
                                   ELSE c)>>)
(* the algebra the property quotes *)
Laws == \A a, b \in BOOLEAN :
          /\ Inside("Add", a, b) = Inside("Add", b, a) /\ Inside("Intersect", a, b) = Inside("Intersect", b, a)
          /\ (Inside("Add", a, b) /\ Inside("Intersect", a, b)) = (a /\ b)
          /\ Inside("Subtract", a, b) = (a /\ ~Inside("Intersect", a, b))
=============================================================================
