CONSTANTS Threads <- T3
  Walk = "raw"
  Programs <- P_three
INIT Init
NEXT Next
INVARIANT NoUseAfterFree
INVARIANT FreedIffUnowned
INVARIANT NoLeakAtEnd
