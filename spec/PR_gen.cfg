CONSTANTS N = 4
  Keys = {1, 2, 3}
  InitVal = 100
  IdentityArg = "identity"
  Emit = TRUE
INIT Init
NEXT Next
INVARIANT SortCorrect

CHECK_DEADLOCK FALSE
