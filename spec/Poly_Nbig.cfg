CONSTANTS Family = "N"
  G = 0
  MaxV = 4
  Emit = TRUE
  StartRows = {}
INIT Init
NEXT Next
INVARIANT GenValid
INVARIANT PathSimple
INVARIANT RefValid
INVARIANT PickOK
INVARIANT MutantsRejected
INVARIANT PlaceNumbers
INVARIANT PlaceValid
CHECK_DEADLOCK FALSE
