"""Shared machinery of the /verif checks: builds, TLC, verdicts, evidence.

Verdict rule (DESIGN.md section 1): a VIOLATION is printed only when an observed
execution of the real code contradicts the property as stated AND the saved replay
re-fails once.  Tool failures exit 2.  Known findings (known_findings.json) are
printed as KNOWN-FINDING and do not fail the check.
"""
import json, os, re, subprocess, sys, time, hashlib, shutil, random, tempfile

ROOT = '/verif'
REPO = os.environ.get('VERIF_REPO', '/repo')
SPEC = ROOT + '/spec'
BUILD = os.environ.get('VERIF_BUILD', ROOT + '/build')
TLC_JAR = '/opt/veriftools/tla/tla2tools.jar'


class ToolError(Exception):
    pass


def log(*a):
    print(*a, flush=True)


def seed():
    try:
        return int(os.environ.get('VERIF_SEED', '1'))
    except ValueError:
        return 1


def run(cmd, timeout=None, env=None, cwd=None, stdout=None, check=False):
    e = dict(os.environ)
    if env:
        e.update(env)
    for attempt in range(30):
        try:
            p = subprocess.run(cmd, shell=isinstance(cmd, str), cwd=cwd, env=e, timeout=timeout,
                               stdout=stdout or subprocess.PIPE, stderr=subprocess.STDOUT, text=True)
            break
        except (PermissionError, OSError) as ex:
            # the driver binary is being re-linked by a concurrent build: wait and retry
            if isinstance(ex, subprocess.TimeoutExpired) or attempt == 29: raise
            time.sleep(5)
    if check and p.returncode != 0:
        raise ToolError('command failed (%d): %s\n%s' % (p.returncode, cmd, (p.stdout or '')[-3000:]))
    return p


# ---------------------------------------------------------------- builds
_built = set()


def build(variant):
    """(Re)build /repo's current working tree + the driver for a variant."""
    if variant in _built:
        return BUILD + '/' + variant + '/mfdrive'
    t0 = time.time()
    p = run([ROOT + '/lib/buildrepo.sh', variant], timeout=3000)
    if p.returncode != 0:
        raise ToolError('build of /repo (%s) failed:\n%s' % (variant, p.stdout[-4000:]))
    p = run('make -C %s/drive VARIANT=%s REPO=%s BUILDROOT=%s -j16' % (ROOT, variant, REPO, BUILD), timeout=3000)
    if p.returncode != 0:
        raise ToolError('driver build (%s) failed:\n%s' % (variant, p.stdout[-4000:]))
    _built.add(variant)
    log('[build] %s ready in %.0fs' % (variant, time.time() - t0))
    return BUILD + '/' + variant + '/mfdrive'


# ---------------------------------------------------------------- TLC
class TlcResult:
    def __init__(self):
        self.out = ''
        self.generated = 0
        self.distinct = 0
        self.depth = 0
        self.violation = None      # name of violated invariant/property
        self.error = None
        self.behaviours = []       # JSON strings printed by the spec ("BEH")
        self.coverage = {}         # action -> (taken, generated)
        self.rc = 0


def tlc(module, cfg, workers=8, simulate=None, depth=None, timeout=600, coverage=False,
        env=None, heap='8g', extra=None, keep_out=False):
    """Run TLC on SPEC/module.tla with SPEC/cfg.  simulate=N -> -simulate num=N."""
    # mkdtemp: unique even when tlc_many starts two jobs of one module in the same millisecond
    # (a shared metadir is removed by whichever run finishes first -> "Unable to open ..._0.fp")
    os.makedirs(BUILD + '/tlc', exist_ok=True)
    meta = tempfile.mkdtemp(prefix='%s.%d.' % (module, os.getpid()), dir=BUILD + '/tlc')
    cmd = ['java', '-Xss64m', '-Xmx' + heap, '-XX:+UseParallelGC', '-cp',
           TLC_JAR + ':/opt/veriftools/tla/CommunityModules-deps.jar', 'tlc2.TLC']
    cmd = ['tlc']
    e = {'JAVA_TOOL_OPTIONS': '-Xss64m -Xmx' + heap}
    if env:
        e.update(env)
    cmd += ['-workers', str(workers), '-metadir', meta, '-config', cfg]
    if simulate:
        cmd += ['-simulate', 'num=%d' % simulate, '-seed', str(seed())]
        if depth:
            cmd += ['-depth', str(depth)]
    if coverage:
        cmd += ['-coverage', '1']
    if extra:
        cmd += extra
    if '-noGenerateSpecTE' not in cmd:
        # nothing reads the <module>_TTrace_<epoch-seconds> files; concurrent refuted runs of one
        # module would write the same file name into SPEC
        cmd += ['-noGenerateSpecTE']
    cmd += [module + '.tla']
    r = TlcResult()
    try:
        p = run(cmd, timeout=timeout, env=e, cwd=SPEC)
        r.out = p.stdout
        r.rc = p.returncode
    except subprocess.TimeoutExpired as ex:
        r.out = (ex.stdout or b'').decode() if isinstance(ex.stdout, bytes) else (ex.stdout or '')
        r.rc = -9
        r.error = 'timeout'
    finally:
        shutil.rmtree(meta, ignore_errors=True)
    for line in r.out.splitlines():
        if line.startswith('<<"BEH", "'):
            try:
                r.behaviours.append(json.loads(line[len('<<"BEH", '):-2]))
            except Exception:
                pass
    m = re.findall(r'(\d[\d,]*) states generated, (\d[\d,]*) distinct states found', r.out)
    if m:
        r.generated = int(m[-1][0].replace(',', ''))
        r.distinct = int(m[-1][1].replace(',', ''))
    m = re.search(r'The depth of the complete state graph search is (\d+)', r.out)
    if m:
        r.depth = int(m.group(1))
    m = re.search(r'Invariant (\S+) is violated', r.out)
    if m:
        r.violation = m.group(1)
    m = re.search(r'(Temporal properties were violated|Action property \S+.*is violated|Deadlock reached)', r.out)
    if m and not r.violation:
        r.violation = m.group(1)
    if 'Parsing or semantic analysis failed' in r.out or 'Error: ' in r.out and r.violation is None \
            and 'Error: The behavior up to this point' not in r.out and r.rc not in (0,):
        if r.error is None and r.rc != 12:
            r.error = 'tlc error rc=%d' % r.rc
    for m in re.finditer(r'<(\w+) line \d+, col \d+ to line \d+, col \d+ of module (\w+)>: (\d+):(\d+)', r.out):
        r.coverage[m.group(1)] = (int(m.group(3)), int(m.group(4)))
    return r


def tlc_ok(r, what):
    """Model-checking run must finish without error; a violated invariant in the MODEL is a
    prediction, reported by the caller."""
    if r.error and not r.violation:
        raise ToolError('%s: TLC failed (%s)\n%s' % (what, r.error, r.out[-3000:]))


def write_ndjson(path, items):
    os.makedirs(os.path.dirname(path), exist_ok=True)
    with open(path, 'w') as f:
        for it in items:
            f.write(it if isinstance(it, str) else json.dumps(it))
            f.write('\n')


def read_ndjson(path):
    out = []
    if not os.path.exists(path):
        return out
    with open(path) as f:
        for line in f:
            line = line.strip()
            if line:
                try:
                    out.append(json.loads(line))
                except Exception:
                    pass
    return out


# ---------------------------------------------------------------- driver
def drive(variant, args, inp, out, timeout=1800, env=None, per_item_resume=True):
    """Run mfdrive on an input file; resumes after a crash so that every item gets a verdict.
    Returns (results_by_index, crashes) where crashes is a list of (index, tail_of_stderr)."""
    exe = build(variant)
    results = {}
    crashes = []
    start = 0
    e = {'ASAN_OPTIONS': 'detect_leaks=0:abort_on_error=0:halt_on_error=1:allocator_may_return_null=1',
         'UBSAN_OPTIONS': 'print_stacktrace=1:halt_on_error=1',
         'TSAN_OPTIONS': 'halt_on_error=0:second_deadlock_stack=1'}
    if env:
        e.update(env)
    t0 = time.time()
    while True:
        cmd = [exe] + args[:1] + [inp, out] + args[1:] + ['--from=%d' % start]
        try:
            p = run(cmd, timeout=max(10, timeout - (time.time() - t0)), env=e)
            rc, text = p.returncode, p.stdout
        except subprocess.TimeoutExpired as ex:
            rc, text = -9, 'TIMEOUT'
        last_begin = None
        done = False
        for j in read_ndjson(out):
            if 'begin' in j:
                last_begin = j['begin']
            elif 'i' in j:
                results[j['i']] = j
                last_begin = None if last_begin == j['i'] else last_begin
            elif j.get('done'):
                done = True
        if done and rc == 0:
            break
        if last_begin is None:
            raise ToolError('driver failed without an attributable item (rc=%s):\n%s' % (rc, text[-3000:]))
        crashes.append((last_begin, rc, text[-6000:]))
        start = last_begin + 1
        if not per_item_resume or len(crashes) > 50 or time.time() - t0 > timeout:
            break
    return results, crashes


# ---------------------------------------------------------------- findings / verdict
def known_findings():
    p = ROOT + '/known_findings.json'
    if not os.path.exists(p):
        return []
    return json.load(open(p)).get('findings', [])


class Check:
    """Collects violations, applies the known-findings file, writes evidence, exits."""

    def __init__(self, pid, tier, level):
        self.pid = pid
        self.tier = tier
        self.level = level
        self.t0 = time.time()
        self.violations = []     # (signature, description, replay_path)
        self.known_hit = []
        self.coverage = {}
        self.assumptions = []
        self.drift = []
        self.outroot = os.environ.get('VERIF_OUT', ROOT)
        os.makedirs(self.outroot + '/replays', exist_ok=True)
        os.makedirs(self.outroot + '/evidence', exist_ok=True)

    def violation(self, signature, description, replay_obj):
        """signature identifies THIS failure; matched against known_findings.json."""
        for k in known_findings():
            if k.get('property') == self.pid and k.get('status', 'open') == 'open' and \
                    re.fullmatch(k['signature'], signature):
                if k['id'] not in [x[0] for x in self.known_hit]:
                    self.known_hit.append((k['id'], k['description']))
                return False
        h = hashlib.sha1(signature.encode()).hexdigest()[:10]
        path = '%s/replays/%s_%s.json' % (self.outroot, self.pid, h)
        with open(path, 'w') as f:
            json.dump({'property': self.pid, 'signature': signature, 'description': description,
                       'replay': replay_obj}, f, indent=1)
        if signature not in [v[0] for v in self.violations]:
            self.violations.append((signature, description, path))
        return True

    def finish(self, extra_cov=None):
        cov = dict(self.coverage)
        if extra_cov:
            cov.update(extra_cov)
        if self.drift:
            cov['drift'] = self.drift[:20]
        cov['known_findings_observed'] = [k[0] for k in self.known_hit]
        ev = {'property_id': self.pid, 'tier': self.tier, 'seed': seed(), 'level': self.level,
              'coverage': cov, 'assumptions': self.assumptions,
              'wall_s': round(time.time() - self.t0, 1), 'violations': len(self.violations)}
        with open('%s/evidence/%s.json' % (self.outroot, self.pid), 'w') as f:
            json.dump(ev, f, indent=1, default=str)
        for kid, desc in self.known_hit:
            log('KNOWN-FINDING: property=%s %s: %s' % (self.pid, kid, desc))
        for sig, desc, path in self.violations[:10]:
            log('VIOLATION property=%s replay=%s' % (self.pid, path))
            log('  what: %s' % desc[:500])
        if self.violations:
            log('[%s] %s: %d violation(s) in %.0fs' % (self.pid, self.tier, len(self.violations), time.time() - self.t0))
            sys.exit(1)
        log('[%s] %s: property held on everything explored (%.0fs)' % (self.pid, self.tier, time.time() - self.t0))
        sys.exit(0)


def tlc_many(jobs, parallel=6):
    """jobs: list of (module, cfg, kwargs). Runs them concurrently; returns list of TlcResult."""
    from concurrent.futures import ThreadPoolExecutor
    def one(j):
        module, cfg, kw = j
        kw = dict(kw)
        kw.setdefault('workers', 2)
        kw.setdefault('timeout', 900)
        kw.setdefault('heap', '3g')
        return tlc(module, cfg, **kw)
    with ThreadPoolExecutor(max_workers=parallel) as ex:
        return list(ex.map(one, jobs))
