#!/usr/bin/env python3
"""Regenerates /verif/MANIFEST.json from the table below (keeps it schema-valid)."""
import json, subprocess
CHECKS = {
 'C02': ('exploration', 'TLC-enumerated lattice CSG programs (Program.tla/Lattice.tla as exact oracle) replayed on the real API; '
         'exhaustive over all ordered pairs of the 27 boxes of the 2x2x2 window x 3 ops, seeded simulation beyond. Lattice regime only.',
         'independent solid-angle winding oracle at cell centres; TLC; lattice (coincident/coplanar) regime',
         'TLA+ spec as oracle + TLC behaviour generation + replay into real code', '5 C02'),
}
NA = []
def main():
    props = [json.loads(l)['id'] for l in open('/verif/properties.jsonl')]
    commits = []
    try:
        out = subprocess.run(['git', '-C', '/repo', 'log', '--format=%H %s', 'ab2a4d88..HEAD'], capture_output=True, text=True).stdout
        commits = [l.split()[0] for l in out.splitlines() if l.split(' ', 1)[1].startswith('verif-hook')]
    except Exception:
        pass
    m = {'version': 1,
         'setup_cmd': './setup.sh',
         'hooks': {'guard': 'MANIFOLD_VERIF',
                   'enable': 'lib/buildrepo.sh <seq|par|tsan> configures /repo with -DCMAKE_CXX_FLAGS=-DMANIFOLD_VERIF (plus sanitizer flags) into /verif/build/<variant>',
                   'baseline_off_cmd': './baseline_off.sh', 'source_commits': commits, 'add_only': True},
         'engines': [{'name': 'tlc', 'path': '/opt/veriftools/tla/tla2tools.jar', 'serves_properties': sorted(CHECKS), 'kind_free_text': 'explicit-state model checker for the TLA+ specifications in /verif/spec'},
                     {'name': 'mfdrive', 'path': '/verif/drive', 'serves_properties': sorted(CHECKS), 'kind_free_text': 'C++ conformance driver: replays TLC behaviours on the real code / records traces for TLC trace validation'}],
         'checks': [], 'not_applicable': [], 'notes': 'see DESIGN.md; known findings in known_findings.json'}
    for pid in props:
        if pid in CHECKS:
            cat, text, note, tech, ref = CHECKS[pid]
            m['checks'].append({'property_id': pid, 'quick_cmd': './check %s --tier quick' % pid,
                                'thorough_cmd': './check %s --tier thorough' % pid,
                                'evidence_file': '/verif/evidence/%s.json' % pid,
                                'replay_cmd_template': './check %s --replay {path}' % pid, 'engine': 'tlc+mfdrive',
                                'level_claimed': {'category': cat, 'text': text, 'design_ref': ref},
                                'level_note': note, 'technique': tech})
        else:
            reason = dict(NA).get(pid, 'check not built yet in this round (planned, see DESIGN.md section 5); not claimed')
            m['not_applicable'].append({'property_id': pid, 'reason': reason})
    json.dump(m, open('/verif/MANIFEST.json', 'w'), indent=1)
main()
