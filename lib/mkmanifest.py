#!/usr/bin/env python3
"""Regenerates /verif/MANIFEST.json from the table below (keeps it schema-valid)."""
import json, subprocess
T_REPLAY = 'TLA+ spec as oracle + TLC behaviour generation + replay into real code'
# id: (category, text, level_note, technique, design_ref)
CHECKS = {
 'C01': ('exploration', 'Closed2Manifold predicate (the clause list of the statement) evaluated on 64/32-bit exports of every handle of '
         'TLC-generated lattice programs with coincident/touching/nested operands and all Program.tla derivations',
         'lattice programs only so far; predicate implemented in the driver', 'TLC behaviour generation + replay with manifoldness oracle', '5 C01'),
 'C02': ('exploration', 'TLC-enumerated lattice CSG programs (Program.tla/Lattice.tla/Expr.tla as exact oracle) replayed on the real API eagerly and lazily (incl. all 2592 three-Boolean chains with derived operands over coincident bars/slabs); '
         'exhaustive over all ordered pairs of the 27 boxes of the 2x2x2 window x 3 ops and over two transformed leaves; seeded simulation beyond.',
         'independent solid-angle winding oracle at cell centres; lattice (coincident/coplanar) regime only', T_REPLAY, '5 C02'),
 'C03': ('model_checking', 'Expr.tla: TLC checks that a functional transcription of the lazy evaluator (collapse, transform push-down, '
         'negative-children propagation, flat batches, cache) equals the set-algebra denotation on exhaustively enumerated annotated '
         'expression families; every enumerated expression is executed on the real code lazily/eagerly/held-first with real object '
         'lifetimes and compared with the denotation; Program.tla adds seeded DAG x forcing-order x lifetime behaviours.',
         'small-scope (<=4 leaves, lattice boxes, 90-degree/translation transforms); winding oracle; transcription of csg_tree.cpp by hand',
         'TLC model checking of evaluator rewrites + exhaustive spec-generated behaviours replayed on real code', '5 C03'),
 'C04': ('exploration', 'ForEach.tla proves (TLC, all chunk orders/assignments/combine orders) that the library\'s three parallel output idioms are schedule-independent '
         'exactly when the sort key is total and accumulation is integral, and refutes the tie / float variants; the same case file (refined Expr.tla '
         'expressions above the parallel thresholds, coincident imports, >2^18-vertex imports, sphere/batch Booleans, hull, Minkowski, level set, smoothing, '
         'CrossSection Booleans above the BVH threshold, Triangulate; cases that once exposed a defect stay pinned) runs in the serial-backend build and the TBB build with arena sizes 1,2,3,7,16, repeatedly; all export hashes must agree.',
         'TBB schedules are sampled (arena size x repetition), not enumerated; original IDs renamed by first occurrence',
         'TLC model checking of the output idioms + cross-configuration replay of one case file', '5 C04'),
 'C05': ('model_checking', 'Program.tla!ValueStable model-checked; TLC-generated histories over a pool of live objects replayed with every '
         'already-observed handle re-observed bit-for-bit after every later action; Expr.tla families with the derived root dropped '
         'unevaluated / evaluated first (held and shared sub-expressions must keep their value).',
         'observation = hash of full MeshGL64 export + scalar getters; lattice regime; CrossSection values not yet covered',
         'TLC-generated histories replayed on real code with value-stability oracle from the spec', '5 C05'),
 'C06': ('model_checking', 'Sync.tla: every shared-field access of the handle/op-node/leaf machinery as a micro-step with the locks the code holds; TLC interleaves '
         '2-3 client threads and checks the lockset discipline and deadlock freedom (the unguarded-cache_ variant of the pinned tree is refuted). Client programs '
         'over the same call menu run on real threads in a ThreadSanitizer build (serial backend: all synchronisation visible) with seeded skew; a TSan report, '
         'a hang, or an answer differing from the serial run is a violation. Lifetime.tla: ownership (shared_ptr owners) of the shared sub-node while threads evaluate through copies of the handles; '
         'TLC checks NoUseAfterFree/FreedIffUnowned/NoLeakAtEnd and refutes the raw-pointer NumLeaves walk (F24); its programs are projected onto the same driver with more repetitions.',
         'ThreadSanitizer is the race witness; thread timing is sampled; the access table of Sync.tla is a hand transcription',
         'TLC model checking of the locking protocol + TSan-witnessed replay of client programs', '5 C06'),
 'C07': ('exploration', 'Expr.tla derives the instances (original, composed transform) of every enumerated expression; originals are imported lattice boxes with one '
         'face ID and one affine integer property field per face (half seams, mixed channel counts); every exported triangle is checked in exact integer arithmetic: '
         'run structure, run transform = an instance the spec derives, pulled-back triangle inside the source face its face ID names, orientation vs back-side flag, '
         'properties = the face field (missing channels zero); a sample of pulled-back triangles is validated by TLC (Prov_Trace.tla).',
         'lattice transforms only; non-integral (flap) triangles skipped and counted; F20 masks property mismatches of multi-Boolean programs',
         'TLC-enumerated expressions + exact-integer provenance oracle + TLC trace validation', '5 C07'),
 'C08': ('exploration', 'export -> import -> export compared as canonical triangle multisets (bit-exact properties, IDs, flags, transforms) for every handle of '
         'TLC-generated programs', 'tangents / 32-bit / OBJ paths not covered yet', 'TLC behaviour generation + replay with round-trip oracle', '5 C08'),
 'C09': ('model_checking', 'MeshGL.tla: abstract MeshGL as a record of field classes, the ingest validation ladder transcribed, totality and '
         '"every out-of-bounds class is rejected" checked by TLC over all inputs with <= 2 malformed fields; each enumerated input is concretised '
         '(64/32-bit), constructed under ASan/UBSan and pushed through ~45 consuming operations (status must stay non-NoError, results empty; '
         'NoError results must be closed 2-manifolds with finite numbers).',
         'AddressSanitizer/UBSan are the memory-safety witnesses; polygon/point-set/OBJ/numeric-argument classes are covered by other checks',
         'TLC-enumerated abstract inputs (fault classes) executed on the real code under sanitizers', '5 C09'),
 'C10': ('model_checking', 'Poly.tla states C10 on integer-lattice polygon sets with exact integer predicates; TLC explores all simple lattice paths/polygons of the bound and the '
         'hole/nesting/multi-outer/star/duplicate-vertex/arbitrary families, checking generator/predicate agreement, Pick\'s theorem, satisfiability via a reference ear clipper and rejection of '
         'corrupted triangulations. Every generated set is executed on the real TriangulateIdx/Triangulate/PolygonTriangulator under exact similarity views, placement classes (scales 1e-3..1e3, offsets up to 3e6; admissibility = feature size >= 1000 eps decided by the spec) and a watchdog; outputs are validated by an '
         'integer transcription of ValidTriangulation, and a sample of recorded outputs is validated by TLC itself (Poly_Trace).',
         'C++ transcription of the predicate (cross-checked against the spec per case); CCW-within-eps = cross >= 0 on exact views; ASan/UBSan as memory oracle',
         'TLA+/TLC state-graph enumeration + replay + trace validation', '5 C10'),
 'C11': ('model_checking', 'Xsec.tla: exact integer winding numbers of pixel centres for arbitrary lattice/half-lattice contours under Positive/EvenOdd, set-algebra '
         'Booleans/BatchBoolean and lattice transforms, with the oracle\'s own soundness invariants and the set laws checked by TLC on every state; every contour set of <=2 catalogue '
         'contours and every small program enumerated exhaustively (plus seeded simulation, >1024-edge staircases, operands with inflated tolerance, and XsecPoly.tla: lattice triangles/quadrilaterals with shared tips, fans, crossings at rational points, judged at 8 generic sample points per pixel + a dense grid). Every program is executed through the real CrossSection API and every '
         'object judged by an independent crossing-number oracle on ToPolygons(), Area(), an exact-arithmetic Regularized predicate, lattice-ness and operand-order independence.',
         'lattice / half-lattice regime; drive/xsec.h oracles; hand binding of generators to API calls', 'explicit TLA+ specification + TLC (BFS and -simulate) + replay binding', '5 C11'),
 'C12': ('model_checking', 'Xoff.tla (on Xsec.tla): TLC enumerates lattice regions, point sets and rings, checks the consistency of the exact integer oracles (Chebyshev dilation/erosion for miter joins, '
         'rational chordal bands for round joins, generic containment/limit clauses for every join type, convex hull, edge-connected components, the Simplify relation) and prints every case with the '
         'demanded pixel sets, hull cycles, components and tolerances; a corner-angle family (38 polygons covering convex/reflex x <30/30-90/>90 degrees and collinear, 10 segment counts, both delta signs) is probed on rays around every vertex; the driver executes CrossSection::Offset/Hull/Decompose/Simplify on each and judges with independent winding and integer predicates.',
         'Xsec.tla winding oracle, CosLB table, drive/xsec.h Windings/Regularized; integer deltas -2..2 on small lattice regions; F-C12-1 masks double-inversion failures',
         'TLA+ spec as oracle and generator, replay against the real API', '5 C12'),
 'C13': ('model_checking', 'ParScan/ParReduce.tla: the oneTBB scan/reduce protocols over transcriptions of ScanBody, CopyIfScanBody, SortedRange, all protocol '
         'instances enumerated and checked equal to the sequential algorithm (regression variants refuted); UnionFind/HashTable.tla: one step per '
         'atomic access, all interleavings of 2-3 threads checked. Every protocol instance is executed call for call on the real bodies, every '
         'context-switch-bounded schedule is replayed on the real containers under a deterministic scheduler, and whole templates run against std '
         'for lengths around the thresholds.',
         'scan protocol = documented Body contract (one legal two-pass scheme), not TBB\'s task graph; whole-template TBB schedules are sampled',
         'TLC model checking of protocols/interleavings + replay of every enumerated instance/schedule on the real code', '5 C13'),
 'C14': ('model_checking', 'RadixTree.tla transcribes collider.h (CreateRadixTree with index tie-break/RangeEnd/FindSplit, BuildInternalBoxes arrival counters under all interleavings, '
         'FindCollision stack traversal, Box overlap/Transform); TLC checks full-binary-tree, contiguous-range and partition invariants for every sorted Morton multiset of 2..6 leaves over 8 codes, '
         'box = union of range, and traversal = brute-force closed-interval set on every tree x interval assignment x query, including unbounded and empty query boxes/points (sentinels mapped to +-inf). Every TLC-printed case plus seeded sets up to 5000 leaves are executed on the real '
         'Collider (all Collisions overloads, Transform, UpdateBoxes), the boolean2 sweep/BVH broad phase and the polygon k-d tree, and pair multisets compared.',
         'hand transcription of collider.h:76-235 (tree shape compared with the real CreateRadixTree on every case); driver brute-force scan for large cases validated against the spec',
         'TLC model checking of a transcription + TLC case generation with spec-computed oracle + replay on the real code', '5 C14'),
 'C15': ('model_checking', 'Ctx.tla: the cancellation/progress protocol with Cancel enabled between any two steps (AllOrNothing, ProgressBounded/Monotone, '
         'CompletedMeansOne, ShortCircuit, CancelSticky, termination; the variant without the post-helper check is refuted). The probe in '
         'IsCancelled injects Cancel at the k-th check for every k of every case (Expr.tla expressions with shared/held/pre-evaluated parts, and the '
         'eager context-observed operations); every run is judged and its recorded trace validated by TLC against Ctx_Trace.tla.',
         'probe counts checks on one registered context (single-threaded injection at every check site); eager ops on fixed small inputs',
         'TLC model checking + fault injection at every cancellation check + TLC trace validation', '5 C15'),
 'C16': ('model_checking', 'Hull3.tla: exact integer IsHullOf relation (closed manifold, vertices are inputs, containment, convex edges, empty iff no volume) and the '
         'Minkowski inclusions on lattice cells; TLC checks the relation against a reference construction, rejects damaged results and enumerates every point multiset / solid pair; '
         'each case is executed on the real Hull/Minkowski API through several routes and judged in exact integer arithmetic or by the winding oracle; a sample of returned meshes is re-judged by TLC.',
         'lattice inputs only; reach clause is an upper bound only; F10/F16 signatures mask their dispatch classes', 'denotational TLA+ spec, exhaustive enumeration, replay, TLC trace validation of the result relation', '5 C16'),
 'C17': ('model_checking', 'Ctor.tla gives every argument tuple of the seven constructors, the six transforms and Quality an exact three-valued meaning on lattice cell centres (in / out / faceting band) plus an '
         'expected Status, counts and volumes; TLC enumerates all tuples of the small integer domains by family and checks six invariants (among them that the group-action and preimage denotations agree and '
         'that the rounding arithmetic matches the documented rounding). Every enumerated case is executed on the real public API and classified by an independent winding-number oracle.',
         'Lattice.tla conventions; measured Sphere in-radius bound; rational cos^2 bounds; only cell centres are judged; twist != 0 and non-integer parameters not covered',
         'explicit TLA+ spec + TLC enumeration and invariants + replay binding', '5 C17'),
 'C18': ('exploration', 'measurement queries of every live handle of TLC-generated lattice programs compared with Lattice.tla (cells, exposed faces, '
         'extent, slices, shadow, components) and with sums over the export', 'lattice regime; MinGap/general position not covered yet', T_REPLAY, '5 C18'),
 'C19': ('model_checking', 'Refine.tla: TLC enumerates every ordered edge-division triple/quadruple up to the bound (the cache key space of the subdivision patterns) and small lattice CSG programs, '
         'checks the tiling predicate on exact reference tilings and on damaged ones, and evaluates the same TLA+ predicate on the partitions returned by the real Partition/Reindex code (hook). '
         'Refine, RefineToLength, RefineToTolerance, Simplify and SetTolerance are replayed through the public API on the enumerated lattice solids and judged by independent oracles '
         '(winding number at cell centres, closed 2-manifold with every vertex referenced, exact vertex retention, point-to-surface distance, n^2 count, tolerance floor).',
         'driver classifies barycentric points in double precision; with tangents only retention/manifoldness/finiteness are decided; F8 signature masks its class',
         'explicit TLA+ spec, TLC exhaustive enumeration, driver replay, TLC trace validation', '5 C19'),
 'C20': ('model_checking', 'CApi.tla: an operational life-cycle model of C objects (protocol automaton vs memory model: no double destruct, no use after destruct, construction only into raw storage '
         'of the right size, no leak, protocol tightness), every invariant demanded to fail without the guards; every complete legal program TLC prints is executed on the real C functions for all 13 handle '
         'types under ASan/UBSan/LSan, and every exported function (298/298 measured from the header) is executed call for call through C and C++ with TLC-chosen arguments and compared field by field.',
         'the C++ API is the oracle of faithfulness; hand-written mirror table drive/capi_table.inc; sanitizers, guard bytes and canaries as memory-safety witnesses',
         'TLA+/TLC model plus generation, replayed by the C++ driver', '5 C20'),
}
NA = {}

def main():
    props = [json.loads(l)['id'] for l in open('/verif/properties.jsonl')]
    commits = []
    try:
        out = subprocess.run(['git', '-C', '/repo', 'log', '--format=%H %s', 'ab2a4d88..HEAD'], capture_output=True, text=True).stdout
        commits = [l.split()[0] for l in out.splitlines() if l.split(' ', 1)[1].startswith('verif-hook')]
    except Exception:
        pass
    m = {'version': 1,
         'setup_cmd': './setup.sh',
         'hooks': {'guard': 'MANIFOLD_VERIF',
                   'enable': 'lib/buildrepo.sh <seq|par|tsan> configures /repo with -DCMAKE_CXX_FLAGS=-DMANIFOLD_VERIF (plus sanitizer flags) into /verif/build/<variant>',
                   'baseline_off_cmd': './baseline_off.sh', 'source_commits': commits, 'add_only': True},
         'engines': [{'name': 'tlc', 'path': '/opt/veriftools/tla/tla2tools.jar', 'serves_properties': sorted(CHECKS), 'kind_free_text': 'explicit-state model checker for the TLA+ specifications in /verif/spec'},
                     {'name': 'mfdrive', 'path': '/verif/drive', 'serves_properties': sorted(CHECKS), 'kind_free_text': 'C++ conformance driver: replays TLC behaviours on the real code / records traces for TLC trace validation'}],
         'checks': [], 'not_applicable': [], 'notes': 'see DESIGN.md; known findings in known_findings.json'}
    for pid in props:
        if pid in CHECKS:
            cat, text, note, tech, ref = CHECKS[pid]
            m['checks'].append({'property_id': pid, 'quick_cmd': './check %s --tier quick' % pid,
                                'thorough_cmd': './check %s --tier thorough' % pid,
                                'evidence_file': '/verif/evidence/%s.json' % pid,
                                'replay_cmd_template': './check %s --replay {path}' % pid, 'engine': 'tlc+mfdrive',
                                'level_claimed': {'category': cat, 'text': text, 'design_ref': ref},
                                'level_note': note, 'technique': tech})
        else:
            reason = NA.get(pid, 'check not built yet in this round (planned, see DESIGN.md section 5); not claimed')
            m['not_applicable'].append({'property_id': pid, 'reason': reason})
    json.dump(m, open('/verif/MANIFEST.json', 'w'), indent=1)
main()
