#!/bin/bash
# buildrepo.sh <variant> : (re)build /repo's CURRENT working tree into /verif/build/<variant>
# variants: seq (gcc ASan+UBSan, serial backend, hooks on), par (TBB, hooks on),
#           tsan (clang-14 ThreadSanitizer, serial backend, hooks on), off (pristine flags, hooks off, with tests)
set -e
V=$1; REPO=${VERIF_REPO:-/repo}; B=${VERIF_BUILD:-/verif/build}/$V
mkdir -p $B
COMMON="-G Ninja -DMANIFOLD_CBIND=ON -DMANIFOLD_DOWNLOADS=OFF -DCMAKE_BUILD_TYPE=None -DBUILD_SHARED_LIBS=OFF"
case $V in
 seq)  ARGS="$COMMON -DMANIFOLD_TEST=OFF -DMANIFOLD_PAR=OFF -DCMAKE_CXX_COMPILER=g++";
       FLAGS="-DMANIFOLD_VERIF -O1 -g -fno-omit-frame-pointer -fsanitize=address,undefined -fno-sanitize-recover=undefined -Wno-error";;
 par)  ARGS="$COMMON -DMANIFOLD_TEST=OFF -DMANIFOLD_PAR=ON -DCMAKE_CXX_COMPILER=g++";
       FLAGS="-DMANIFOLD_VERIF -O2 -g -Wno-error";;
 tsan) ARGS="$COMMON -DMANIFOLD_TEST=OFF -DMANIFOLD_PAR=OFF -DCMAKE_CXX_COMPILER=clang++-14";
       FLAGS="-DMANIFOLD_VERIF -O1 -g -fno-omit-frame-pointer -fsanitize=thread -Wno-error";;
 ser)  ARGS="$COMMON -DMANIFOLD_TEST=OFF -DMANIFOLD_PAR=OFF -DCMAKE_CXX_COMPILER=g++";
       FLAGS="-DMANIFOLD_VERIF -O2 -g -Wno-error";;
 obs)  ARGS="$COMMON -DMANIFOLD_TEST=ON -DMANIFOLD_PAR=OFF -DCMAKE_CXX_COMPILER=g++";
       FLAGS="-DMANIFOLD_VERIF -O2 -g -Wno-error";;
 off)  ARGS="-G Ninja -DMANIFOLD_CBIND=ON -DMANIFOLD_TEST=ON -DMANIFOLD_PAR=OFF -DCMAKE_BUILD_TYPE=RelWithDebInfo";
       FLAGS="-Wno-error";;
 *) echo "unknown variant $V"; exit 2;;
esac
if [ ! -f $B/build.ninja ] || [ "$(cat $B/.repo 2>/dev/null)" != "$REPO" ]; then
  rm -rf $B; mkdir -p $B
  cmake -S $REPO -B $B $ARGS -DCMAKE_CXX_FLAGS="$FLAGS" > $B/configure.log 2>&1 || { cat $B/configure.log; exit 2; }
  echo "$REPO" > $B/.repo
fi
cmake --build $B -j${VERIF_JOBS:-16} > $B/build.log 2>&1 || { tail -40 $B/build.log; exit 2; }
