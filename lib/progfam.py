"""Pipeline shared by the properties decided through Program.tla (C01 C02 C03 C05 C08 C18):
TLC model-checks the system spec, TLC generates behaviours (exhaustive BFS and seeded
simulation), mfdrive replays them on the real API and compares with what the spec demands."""
import json, os, time, hashlib
import vf

def model_check(chk, cfg='MCProgram_small.cfg', timeout=300):
    r = vf.tlc('MCProgram', cfg, workers=8, timeout=timeout)
    vf.tlc_ok(r, 'Program model check')
    if r.violation:
        raise vf.ToolError('Program.tla: invariant %s violated in the MODEL (specification bug)\n%s' % (r.violation, r.out[-2000:]))
    chk.coverage['states'] = chk.coverage.get('states', 0) + r.distinct
    chk.coverage['transitions'] = chk.coverage.get('transitions', 0) + r.generated
    return r

def generate(cfg, simulate=None, depth=None, timeout=900, workers=8, module='MCProgram'):
    r = vf.tlc(module, cfg, workers=workers, simulate=simulate, depth=depth, timeout=timeout)
    if r.violation:
        raise vf.ToolError('%s/%s: invariant %s violated in the MODEL\n%s' % (module, cfg, r.violation, r.out[-2500:]))
    if not r.behaviours:
        raise vf.ToolError('no behaviours generated from %s\n%s' % (cfg, r.out[-2000:]))
    # de-duplicate
    seen, out = set(), []
    for b in r.behaviours:
        if b not in seen:
            seen.add(b); out.append(b)
    return out, r

def expr_text(n):
    k = n['k']
    t = lambda x, g: x if g == 'none' else '%s(%s)' % (g, x)
    if k == 'leaf': return t('Box%s' % (tuple(n['box']),), n['t'])
    if k == 'ref': return t('s', n['t'])
    if k == 'let': return 'let s=%s in %s' % (expr_text(n['def']), expr_text(n['body']))
    sym = {'Add': '+', 'Subtract': '-', 'Intersect': '^'}[n['op']]
    return t('(%s)%s' % ((' %s ' % sym).join(expr_text(c) for c in n['ch']), {'temp': '', 'held': '@held', 'pre': '@pre'}[n['own']]), n['t'])

def prog_text(beh):
    """canonical readable text of a behaviour's program (used for signatures & samples)"""
    if 'k' in beh and beh.get('k') in ('leaf', 'op', 'let', 'ref'): return expr_text(beh)
    if 'prog' not in beh: return json.dumps(beh)[:500]
    out = []
    for a in beh['prog']:
        k = a['a']
        if k == 'Leaf': out.append('h%d=Box%s' % (a['h'], tuple(a['box'])))
        elif k == 'Bool': out.append('h%d=h%d %s h%d' % (a['h'], a['x'], a['op'], a['y']))
        elif k == 'BoolAssign': out.append('h%d %s= h%d' % (a['x'], a['op'], a['y']))
        elif k == 'Batch': out.append('h%d=Batch%s(%s)' % (a['h'], a['op'], ','.join('h%d' % x for x in a['xs'])))
        elif k == 'XfAssign': out.append('h%d=%s(h%d)' % (a['x'], a['g'], a['x']))
        elif k == 'Xf': out.append('h%d=%s(h%d)' % (a['h'], a['g'], a['x']))
        elif k == 'Same': out.append('h%d=%s(h%d)' % (a['h'], a['s'], a['x']))
        elif k == 'Split': out.append('h%d,h%d=Split(h%d,h%d)' % (a['h'], a['h2'], a['x'], a['y']))
        elif k == 'Plane': out.append('h%d,h%d=Plane(h%d,axis%d,%d)' % (a['h'], a['h2'], a['x'], a['axis'], a['off']))
        elif k == 'Copy': out.append('h%d=copy(h%d)' % (a['h'], a['x']))
        elif k == 'Assign': out.append('h%d:=h%d' % (a['h'], a['x']))
        elif k == 'Drop': out.append('drop(h%d)' % a['h'])
        elif k == 'Force': out.append('force(h%d,%s)' % (a['h'], a['q']))
        else: out.append(k)
    return '; '.join(out)

def pdrive(variant, args, behaviours, work, tag, timeout, jobs, chunk=200):
    """run the driver over the behaviours in `jobs` parallel chunks; indices are global.
    '{j}' in an argument is replaced by the chunk number."""
    from concurrent.futures import ThreadPoolExecutor
    n = len(behaviours)
    jobs = max(1, min(jobs, (n + chunk - 1) // chunk))
    size = (n + jobs - 1) // jobs
    def one(j):
        lo = j * size
        chunk = behaviours[lo:lo + size]
        inp = '%s/beh%s.%d.ndjson' % (work, tag, j)
        out = '%s/res%s.%d.ndjson' % (work, tag, j)
        vf.write_ndjson(inp, chunk)
        res, cr = vf.drive(variant, [a.replace('{j}', str(j)) for a in args], inp, out, timeout=timeout)
        return ({lo + i: r for i, r in res.items()}, [(lo + i, rc, t) for (i, rc, t) in cr])
    results, crashes = {}, []
    with ThreadPoolExecutor(max_workers=jobs) as ex:
        for res, cr in ex.map(one, range(jobs)):
            for i, r in res.items():
                r['i'] = i
            results.update(res); crashes += cr
    return results, crashes

def replay(chk, behaviours, K, opts, owned, variant='seq', tag='', timeout=3000, sig_of=None, confirm=True,
           mode='prog', jobs=8, chunk=200):
    """behaviours: list of JSON strings.  owned: set of failure-kind prefixes this property owns.
    Returns (n_run, n_nontrivial)."""
    work = '%s/work/%s' % (vf.BUILD, chk.pid)
    os.makedirs(work, exist_ok=True)
    inp = '%s/beh%s.ndjson' % (work, tag)
    out = '%s/res%s.ndjson' % (work, tag)
    args = [mode, '--K=%d' % K] + opts
    results, crashes = pdrive(variant, args, behaviours, work, tag, timeout, jobs, chunk)
    chk.last_results = results
    nontrivial = sum(1 for r in results.values() if r.get('nontrivial', 0) > 0)
    failing = []
    for i, r in sorted(results.items()):
        fl = [f for f in r['fail'] if any(f['kind'].startswith(o) for o in owned)]
        if fl: failing.append((i, fl))
    for (i, rc, text) in crashes:
        beh = json.loads(behaviours[i])
        sig = 'crash|' + ('watchdog-hang' if rc == -14 else crash_site(text))
        chk.violation(sig, 'driver crashed (rc=%s) replaying: %s\n%s' % (rc, prog_text(beh), text[-1500:]),
                      {'driver': args, 'K': K, 'behaviour': beh, 'variant': variant})
    if failing and confirm:
        # re-run the failing behaviours once: only repeatable failures count
        inp2, out2 = inp + '.confirm', out + '.confirm'
        vf.write_ndjson(inp2, [behaviours[i] for i, _ in failing])
        vf.write_ndjson(inp2, [behaviours[i] for i, _ in failing][:200])
        failing = failing[:200]
        res2, cr2 = vf.drive(variant, args, inp2, out2, timeout=600)
        confirmed = []
        for n, (i, fl) in enumerate(failing):
            r2 = res2.get(n)
            if r2 is None: confirmed.append((i, fl)); continue
            kinds2 = set(f['kind'] for f in r2['fail'])
            fl2 = [f for f in fl if f['kind'] in kinds2]
            if fl2: confirmed.append((i, fl2))
        failing = confirmed
    for i, fl in failing:
        beh = json.loads(behaviours[i])
        for f in fl:
            sig = sig_of(f, beh) if sig_of else default_sig(f, beh)
            chk.violation(sig, '%s at step %d of: %s -- %s' % (f['kind'], f['step'], prog_text(beh), json.dumps(f['detail'])[:400]),
                          {'driver': args, 'K': K, 'behaviour': beh, 'failure': f, 'variant': variant})
    return len(results), nontrivial

def crash_site(text):
    import re
    m = re.search(r'SUMMARY: (\w+): ([\w-]+) (\S+)', text)
    if m: return '%s:%s:%s' % (m.group(1), m.group(2), os.path.basename(m.group(3)))
    m = re.search(r'(\S+\.(?:cpp|h):\d+:\d+): runtime error: ([^\n]+)', text)
    if m: return 'UBSan:%s:%s' % (os.path.basename(m.group(1)), m.group(2)[:60])
    if 'MFDRIVE-TERMINATE' in text: return 'uncaught-exception'
    if 'TIMEOUT' in text: return 'timeout'
    if 'Alarm clock' in text: return 'watchdog-hang'
    return 'unknown'

def default_sig(f, beh):
    d = f['detail']
    why = d.get('why') or d.get('why32') or ''
    return '%s|%s|%s' % (f['kind'], why, prog_text(beh))

def replay_file(path):
    """./check Cxx --replay file : re-run one saved behaviour and print the outcome"""
    j = json.load(open(path))
    rp = j['replay']
    work = '%s/work/replay' % vf.BUILD
    os.makedirs(work, exist_ok=True)
    vf.write_ndjson(work + '/b.ndjson', [json.dumps(rp['behaviour'])])
    args = rp['driver']
    results, crashes = vf.drive(rp.get('variant', 'seq'), args, work + '/b.ndjson', work + '/r.ndjson', timeout=600)
    print(json.dumps(results.get(0), indent=1)); print(crashes)
    bad = bool(crashes) or bool(results.get(0, {}).get('fail'))
    if bad:
        print('VIOLATION property=%s replay=%s' % (j['property'], path))
    raise SystemExit(1 if bad else 0)
