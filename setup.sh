#!/bin/bash
# MANIFEST.setup_cmd: build the framework from files on disk only (offline).
# Builds /repo's working tree in the instrumented variants + the conformance driver, and
# syntax-checks every specification.
set -e
cd /verif
mkdir -p build evidence replays
for v in seq par tsan ser; do
  lib/buildrepo.sh $v
  make -C drive VARIANT=$v -j16 > build/$v/drive.log 2>&1 || { tail -30 build/$v/drive.log; exit 2; }
done
for f in spec/*.tla; do
  ( cd spec && tla-sany $(basename $f) > ../build/sany.log 2>&1 ) || { echo "WARNING: sany failed on $f"; tail -5 build/sany.log; }
done
echo "setup ok"
