#!/bin/bash
# tools/arena.sh <name> <patch.diff|-> <check id>... : run quick checks against a scratch worktree of /repo with a
# change applied, WITHOUT touching /repo or /verif/build (so concurrent work is not disturbed).
# The arena (/tmp/arena_<name>: worktree + its own build tree) is kept for incremental rebuilds; remove with
#   tools/arena.sh <name> --rm
N=$1; P=$2; shift; shift
[ "$P" != "-" ] && [ "$P" != "--rm" ] && P=$(realpath "$P")
W=/tmp/arena_$N; 
if [ "$P" = "--rm" ]; then git -C /repo worktree remove --force $W/src 2>/dev/null; rm -rf $W; exit 0; fi
mkdir -p $W
[ -d $W/src ] || git -C /repo worktree add --detach $W/src HEAD >/dev/null 2>&1 || { echo "worktree failed"; exit 2; }
git -C $W/src reset -q --hard 2>/dev/null; git -C $W/src checkout -q --detach $(git -C /repo rev-parse HEAD) 2>/dev/null; git -C $W/src reset -q --hard
if [ "$P" != "-" ]; then git -C $W/src apply "$P" 2>/dev/null || git -C $W/src apply --3way "$P" || { echo "patch does not apply"; exit 2; }; git -C $W/src reset -q; fi
export VERIF_REPO=$W/src VERIF_BUILD=$W/build VERIF_OUT=$W/out
for id in "$@"; do
  out=$(cd /verif && timeout 3000 ./check $id --tier ${TIER:-quick} 2>&1); rc=$?
  if [ $rc -eq 1 ] && echo "$out" | grep -q "^VIOLATION property=$id"; then echo "$id KILLED"; echo "$out" | grep -A1 "^VIOLATION" | head -4 | cut -c1-400
  elif [ $rc -eq 0 ]; then echo "$id MISSED/clean"; echo "$out" | grep "KNOWN-FINDING" | head -3
  else echo "$id ERROR rc=$rc"; echo "$out" | tail -15; fi
done
git -C $W/src reset -q --hard
