#!/bin/bash
# tools/mutant_run.sh <patch.diff> <check id>... : apply a seeded change to /repo, run the quick checks, undo.
# Prints one line per check: <id> KILLED|MISSED|ERROR
P=$1; shift
cd /repo && git diff --quiet || { echo "/repo is dirty"; exit 2; }
git -C /repo apply "$P" || { echo "patch does not apply"; exit 2; }
trap 'git -C /repo checkout -- . ' EXIT
for id in "$@"; do
  out=$(cd /verif && timeout 3000 ./check $id --tier ${TIER:-quick} 2>&1); rc=$?
  if [ $rc -eq 1 ] && echo "$out" | grep -q "^VIOLATION property=$id"; then echo "$id KILLED"; echo "$out" | grep -A1 "^VIOLATION" | head -4
  elif [ $rc -eq 0 ]; then echo "$id MISSED"
  else echo "$id ERROR rc=$rc"; echo "$out" | tail -15; fi
done
