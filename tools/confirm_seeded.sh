#!/bin/bash
# tools/confirm_seeded.sh <seeded dir name>... : independently confirm a seeded change in a scratch worktree:
# it applies, builds, passes the repository's test suite, and its demonstration fails with it and passes without.
# Writes <dir>/confirm.json . Scratch worktree under /tmp is removed afterwards.
for name in "$@"; do
  D=/verif/seeded/$name; W=/tmp/confirm_$name
  rm -rf $W; git -C /repo worktree prune; git -C /repo worktree add --detach $W HEAD >/dev/null 2>&1 || { echo "$name: worktree failed"; continue; }
  (
  cd $W
  PAR=OFF; DEMOPAR=-1; LIBS=""; CLIB=""; grep -q "lmanifoldc" $D/HOWTO.txt && CLIB="-lmanifoldc"
  if grep -q "MANIFOLD_PAR=ON" $D/HOWTO.txt; then PAR=ON; DEMOPAR=1; LIBS="-ltbb"; fi
  # (gtest discovery runs the test binary with a 5 s timeout at build time: retry the build on a loaded machine)
  cfg() { cmake -G Ninja -B $1 -DCMAKE_BUILD_TYPE=RelWithDebInfo -DMANIFOLD_CBIND=ON -DMANIFOLD_TEST=ON -DMANIFOLD_PAR=$2 -DCMAKE_CXX_FLAGS=-Wno-error >/dev/null 2>&1 && { nice cmake --build $1 -j6 >/dev/null 2>&1 || { sleep 10; nice cmake --build $1 -j6 >/dev/null 2>&1; } || { sleep 20; nice cmake --build $1 -j6 >/dev/null 2>&1; }; }; }
  demo() { g++ -std=c++17 -O1 -g -I include -I src -I bindings/c/include -DMANIFOLD_PAR=$DEMOPAR $D/demo.cpp -L $1/src -L $1/bindings/c $CLIB -lmanifold -Wl,-rpath,$W/$1/src -Wl,-rpath,$W/$1/bindings/c $LIBS -lpthread -o $W/demo_$1 2>$W/demo_build.log && timeout 900 $W/demo_$1 > $W/demo_$1.out 2>&1; echo $?; }
  PATCH=$D/patch.diff; [ -f $D/patch_ported.diff ] && PATCH=$D/patch_ported.diff   # ported = same change re-based on the hooked tree
  git apply $PATCH 2>/dev/null || git apply --3way $PATCH || { echo '{"applies": false}' > $D/confirm.json; exit; }
  cfg _b OFF; built=$?
  nice ctest --test-dir _b -j6 --timeout 1800 > $W/ctest.log 2>&1
  # a test that fails under load is re-run alone before it counts
  if grep -q "tests failed" $W/ctest.log && ! grep -q " 0 tests failed" $W/ctest.log; then nice ctest --test-dir _b --rerun-failed --timeout 3000 > $W/ctest2.log 2>&1; tests="$(grep "tests passed" $W/ctest.log | tail -1) ; re-run of the failed ones alone: $(grep "tests passed" $W/ctest2.log | tail -1)"; 
  else tests=$(grep "tests passed" $W/ctest.log | tail -1); fi
  DB=_b; if [ $PAR = ON ]; then cfg _bp ON; DB=_bp; fi
  with=$(demo $DB)
  git reset -q --hard ; 
  cfg _b OFF; if [ $PAR = ON ]; then cfg _bp ON; fi
  without=$(demo $DB)
  python3 - "$built" "$tests" "$with" "$without" > $D/confirm.json <<PY
import sys,json
print(json.dumps({"applies": True, "builds": sys.argv[1]=="0", "ctest_with_patch": sys.argv[2], "demo_exit_with_patch": int(sys.argv[3]), "demo_exit_pristine": int(sys.argv[4]), "demo_needs_par_build": "$PAR"=="ON"}, indent=1))
PY
  )
  cat $D/confirm.json
  git -C /repo worktree remove --force $W; rm -rf $W
done
