#!/bin/bash
# tools/runall.sh [tier] : run every claimed check once, print one line per check
cd /verif; T=${1:-quick}
for id in $(python3 -c "import json; print(' '.join(c['property_id'] for c in json.load(open('MANIFEST.json'))['checks']))"); do
  s=$(date +%s); out=$(./check $id --tier $T 2>&1); rc=$?; e=$(( $(date +%s) - s ))
  echo "$id rc=$rc ${e}s $(echo "$out" | grep -c '^KNOWN-FINDING') known $(echo "$out" | grep '^VIOLATION' | head -2 | tr '\n' ' ')"
  [ $rc -ne 0 ] && echo "$out" | tail -8 | cut -c1-300
done
