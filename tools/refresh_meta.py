#!/usr/bin/env python3
"""tools/refresh_meta.py: fold seeded/<id>/confirm.json (written by tools/confirm_seeded.sh) into meta.json"""
import json, glob, os, re
UPDATED = {
 'C08_b': 'C08 quick in tools/arena.sh: KILLED (roundtripbig: re-import status NotManifold) - missed until the big-mesh round trip was added',
 'C10_a': 'C10 quick in tools/arena.sh: KILLED (tri.count under placement scale 1/100 offset 3e6) - missed until the placement classes were added to Poly.tla',
 'C11_a': 'C11 quick in tools/arena.sh: KILLED (pixels/dense on a tipsX scene of XsecPoly.tla) - missed until lattice polygons were added',
 'C11_b': 'C11 quick in tools/arena.sh: KILLED (--inflate pass) - missed until tolerance-inflated operands were added',
 'C12_a': 'C12 quick in tools/arena.sh: KILLED (off:corner in the *_lt30 classes) - missed until the corner-angle family was added to Xoff.tla',
 'C14_a': 'C14 quick in tools/arena.sh: KILLED (pairs.missing on unbounded query boxes) - missed by C14 until unbounded queries were added; also KILLED by C18',
}
for d in sorted(glob.glob(os.path.dirname(os.path.abspath(__file__)) + '/../seeded/*/')):
    name = os.path.basename(d.rstrip('/'))
    mp, cp = d + 'meta.json', d + 'confirm.json'
    if not os.path.exists(mp): continue
    m = json.load(open(mp))
    if name in UPDATED: m['checks_run'] = UPDATED[name]
    if os.path.exists(cp):
        c = json.load(open(cp))
        ok = bool(c.get('applies') and c.get('builds') and (re.findall(r'(\d+) tests failed', str(c.get('ctest_with_patch', ''))) or ['x'])[-1] == '0'
                  and c.get('demo_exit_with_patch', 0) != 0 and c.get('demo_exit_pristine', 1) == 0)
        m['confirmed_in_scratch_worktree'] = {'confirmed': ok, **c}
    json.dump(m, open(mp, 'w'), indent=1)
    print(name, m.get('confirmed_in_scratch_worktree', {}) and m['confirmed_in_scratch_worktree'].get('confirmed'))
